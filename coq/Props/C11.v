(* C11 — the debugger shows the true state, steps back exactly, and never crashes.  Property theorems only.
   Model: coq/Model/Debug.v (history of snapshots, breakpoint set, running flag, capture buffers; [dtrans] is one
   iteration of the loop of app/debug.rs, [dloop] iterates it).  [dinv code d]: the history of d is exactly the
   sequence of true interpreter states — the snapshot at depth j is, up to its capture buffers, [nsteps j code], the
   state after j executed commands — and every breakpoint is below the number of commands.
   Programs are input-free (the debugger shares stdin with the program). *)
From Coq Require Import List NArith Bool.
Import ListNotations.
From HV Require Import Model.Parse Model.Exec Model.Repl Model.Debug Proofs.AppSpec Proofs.AppAll Proofs.ExtraSpec Proofs.App3Spec.
From HV Require Proofs.ExtraProofs Proofs.App3Proofs.
Open Scope N_scope.

Theorem C11_invariant_initially : forall code, code <> [] -> dinv code dinit.
Proof. exact dinv_init_t. Qed.
Print Assumptions C11_invariant_initially.

(* every iteration of the loop — whatever the command word, breakpoint number, or mode — preserves it: so after
   any sequence of next / previous / run / state / break N / break / help / unknown words the history is the true
   sequence of states, `previous` having dropped exactly the newest snapshot each time it was used *)
Theorem C11_invariant_preserved : forall code lines d evs lines' d', dinv code d ->
  dtrans true true code lines d = (evs, inr (lines', d')) -> dinv code d'.
Proof. exact dinv_step_t. Qed.
Print Assumptions C11_invariant_preserved.

(* the state displayed for a `state` request is the one after k = (history length - 1) commands, which by the invariant
   is the interpreter's state after k commands *)
Theorem C11_state_shows_truth : forall code line rest d, dinv code d -> running d = false ->
  (exists s pc, hd_error (hist d) = Some (s, pc) /\ pc < N.of_nat (length code)) ->
  is_word (hd [] (split_sp (trim line) [])) w_state 115 = true ->
  is_word (hd [] (split_sp (trim line) [])) w_next 110 = false ->
  is_word (hd [] (split_sp (trim line) [])) w_previous 112 = false ->
  is_word (hd [] (split_sp (trim line) [])) w_run 114 = false ->
  dtrans true true code (line :: rest) d = ([DvPrompt; DvState (N.of_nat (length (tl (hist d))))], inr (rest, d)).
Proof. exact debug_state_t. Qed.
Print Assumptions C11_state_shows_truth.

Theorem C11_previous_restores : forall code line rest d s pc older, hist d = (s, pc) :: older -> older <> [] ->
  running d = false -> pc < N.of_nat (length code) ->
  is_word (hd [] (split_sp (trim line) [])) w_previous 112 = true ->
  is_word (hd [] (split_sp (trim line) [])) w_next 110 = false ->
  dtrans true true code (line :: rest) d = ([DvPrompt; DvMovedBack], inr (rest, mkd older (brk d) false (dio d))).
Proof. exact debug_previous_t. Qed.
Print Assumptions C11_previous_restores.

(* no command sequence makes the debugger crash *)
Theorem C11_never_crashes : forall fuel code lines evs e, code <> [] ->
  debug_run true true fuel code lines = (evs, e) -> e <> DPanic.
Proof. exact debug_run_no_panic_t. Qed.
Print Assumptions C11_never_crashes.

(* `run` stops at the first command carrying a breakpoint: in running mode a breakpointed command is not executed; what
   was written so far is shown and the prompt returns *)
Theorem C11_run_stops_at_breakpoint : forall code lines d s pc older, hist d = (s, pc) :: older -> running d = true ->
  pc < N.of_nat (length code) -> mem_N pc (brk d) = true ->
  dtrans true true code lines d = ([flushed (dio d)], inr (lines, mkd (hist d) (brk d) false (clear_io (dio d)))).
Proof. exact ExtraProofs.debug_run_stops. Qed.
Print Assumptions C11_run_stops_at_breakpoint.

(* every character the program writes is shown exactly once, in order: per iteration, text shown ++ text still pending
   = text pending before ++ text written by the command executed in this iteration (if any) ... *)
Theorem C11_output_accounting : forall code lines d evs lines' d',
  dtrans true true code lines d = (evs, inr (lines', d')) ->
  flush_out evs ++ pend_out d' = pend_out d ++ (if executes code lines d then fst (step_text code d) else []) /\
  flush_err evs ++ pend_err d' = pend_err d ++ (if executes code lines d then snd (step_text code d) else []).
Proof. exact ExtraProofs.debug_output_step. Qed.
Print Assumptions C11_output_accounting.
(* ... and when the session ends (program finished, program-requested exit, diagnosed error) nothing stays pending *)
Theorem C11_output_accounting_at_end : forall code lines d evs e,
  dtrans true true code lines d = (evs, inl e) -> e <> DPanic -> e <> DEof -> e <> DQuit ->
  flush_out evs = pend_out d ++ (if executes code lines d then fst (step_text code d) else []) /\
  flush_err evs = pend_err d ++ (if executes code lines d then snd (step_text code d) else []).
Proof. exact ExtraProofs.debug_output_end. Qed.
Print Assumptions C11_output_accounting_at_end.

(* `run` over several iterations: in running mode with b steps on the history, if the next k commands of the run carry no
   breakpoint and the one after them does, then k+1 iterations later the debugger has stopped exactly there — history of b+k
   steps whose newest snapshot is the interpreter's state after b+k commands, breakpoints and unread command lines untouched —
   and the text shown is what was pending followed by everything those k commands wrote, each character once, in order,
   nothing left pending *)
Theorem C11_run_reaches_first_breakpoint : forall code lines d b k s pc,
  dinv code d -> running d = true -> length (hist d) = S b ->
  (forall j, (j < k)%nat -> exists sj pcj, nsteps (b + j) code = Some (sj, pcj) /\
                                          pcj < N.of_nat (length code) /\ mem_N pcj (brk d) = false) ->
  nsteps (b + k) code = Some (s, pc) -> pc < N.of_nat (length code) -> mem_N pc (brk d) = true ->
  exists evs d', diter (S k) code lines d = Some (evs, lines, d') /\
    running d' = false /\ brk d' = brk d /\ length (hist d') = S (b + k) /\
    (exists s', hd_error (hist d') = Some (s', pc) /\ core s' = s) /\
    flush_out evs = pend_out d ++ fst (texts_from code b k) /\
    flush_err evs = pend_err d ++ snd (texts_from code b k) /\
    pend_out d' = [] /\ pend_err d' = [].
Proof. exact App3Proofs.run_to_breakpoint. Qed.
Print Assumptions C11_run_reaches_first_breakpoint.
(* ... and when no command of the rest of the run carries a breakpoint, the session ends (finished) having shown everything *)
Theorem C11_run_reaches_end : forall code lines d b k s pc fuel,
  dinv code d -> running d = true -> length (hist d) = S b ->
  (forall j, (j < k)%nat -> exists sj pcj, nsteps (b + j) code = Some (sj, pcj) /\
                                          pcj < N.of_nat (length code) /\ mem_N pcj (brk d) = false) ->
  nsteps (b + k) code = Some (s, pc) -> N.of_nat (length code) <= pc -> (S k < fuel)%nat ->
  exists evs, dloop true true fuel code lines d = (evs, DFinished) /\
    flush_out evs = pend_out d ++ fst (texts_from code b k) /\
    flush_err evs = pend_err d ++ snd (texts_from code b k).
Proof. exact App3Proofs.run_to_end. Qed.
Print Assumptions C11_run_reaches_end.

(* the pinned tree (before fix ac65e29) could: `break <number of commands>` then `break` *)
Theorem C11_pinned_panics : exists fuel code lines, code <> [] /\ snd (debug_run false true fuel code lines) = DPanic.
Proof. exact debug_pinned_panics_t. Qed.
Print Assumptions C11_pinned_panics.

Example C11_examples :
  let code := map xcode_of_ucode (parse [54805;46;46;32;54637;46;32;54805;46;46;46;32;54637;46]) in
  let L := fun s : list N => s ++ [10] in
  debug_run true true 100 code [L [110]; L [115]; L [112]; L [98;32;50]; L [114]; L [114]]
  = ([DvPrompt; DvShowCode [0]; DvFlush [] []; DvPrompt; DvState 1; DvPrompt; DvMovedBack; DvPrompt; DvSet 2;
      DvPrompt; DvFlush [2] []; DvPrompt; DvFlush [3] []], DFinished).
Proof. vm_compute. reflexivity. Qed.
Print Assumptions C11_examples.
