(* C01 — the interpreter executes every program according to the language definition.
   Property theorems only.  L1: coq/Model/Exec.v (execute_one, push/pop wrappers, area::calc, label rules,
   over the limb-level numbers of Model/Big.v, Rat.v).  L2: coq/Spec/Lang.v (the language definition over
   mathematical rationals-with-NaN: the six commands, ?/!/heart/white-heart rules, I/O stacks 0/1/2, NaN rules).
   [R] relates an interpreter state to a definition state: every stack pointwise through the value of its
   numbers, selected stack, labels, last jump source, pending input, everything written so far. *)
From Coq Require Import List NArith ZArith QArith Bool.
Import ListNotations.
From HV Require Import Model.Big Model.Rat Model.NumText Model.Chars Model.Parse Model.Exec Spec.Lang
  Proofs.RatSpec Proofs.ExecSpec Proofs.ExecAll.
Open Scope N_scope.

(* command by command: from related states one command of the interpreter and of the definition end the same
   way (next command / exit code / diagnosed error) in related states, having written the same text *)
Theorem C01_step_refines : forall c pc s1 s2, R s1 s2 -> small c ->
  res_rel (fun p1 p2 : N => p1 = p2) (execute_one c pc s1) (sstep (xty c) (xhc c) (xdc c) (xac c) (xar c) pc s2).
Proof. exact step_refines_t. Qed.
Print Assumptions C01_step_refines.

(* whole runs, for every step budget (so also for non-terminating programs): same outcome and related states *)
Theorem C01_run_refines : forall fuel code s1 s2 pc, R s1 s2 -> Forall small code ->
  final_rel (run_pre fuel code s1 pc) (srun fuel (map scmd_of_xcode code) s2 pc).
Proof. exact run_refines_t. Qed.
Print Assumptions C01_run_refines.

Theorem C01_initial_states_related : forall input,
  (forall line c, In (Some line) input -> In c line -> c < 2 ^ 63) -> R (state0 SUnopt input) (lstate0 input).
Proof. exact R_init_t. Qed.
Print Assumptions C01_initial_states_related.

(* printed numbers: the interpreter's limb-level decimal conversion prints what the definition prints *)
Theorem C01_number_text : forall a, wfn a -> num_display a = value_text (vof a).
Proof. exact vof_text_t. Qed.
Print Assumptions C01_number_text.

(* non-vacuity: "Hello, world!"-style output, a fraction, a negative, NaN, a taken ? branch against a non-zero
   count, an exit through stack 2 — run on both levels inside Coq *)
Example C01_examples :
  let prog := map xcode_of_ucode (parse [54805;46;46; 54805;46;46;46; 55137;46;46;46; 54637;46; 54805;46;46;46;46;46; 55139;46;46;46; 54637;46; 54805;46;46;63;9829; 55121;46;46; 54635]) in
  match run_pre 100 prog (state0 SUnopt []) 0, srun 100 (map scmd_of_xcode prog) (lstate0 []) 0 with
  | FExit k1 t1, SExited k2 t2 => k1 = 1 /\ k2 = 1 /\ rev (outb t1) = out t2 /\ out t2 <> []
  | _, _ => False
  end.
Proof. vm_compute. repeat split; try reflexivity; discriminate. Qed.
Print Assumptions C01_examples.
