(* C10 — optimising a program never performs the program's effects and always finishes.  Property theorems only.
   In the model the program's effects are: consuming [inp] (reading standard input), the results RExit (terminating
   the process) and text reaching the process streams.  Speculative execution writes only into the capture buffers of
   the state by construction; what the model cannot exhibit — the real stdin handle, file descriptors 1/2, the
   process — is observed by the child-process check in tools/hv/c10checks.py. *)
From Coq Require Import List NArith Bool.
Import ListNotations.
From HV Require Import Model.Parse Model.Exec Model.Opt Proofs.OptSpec Proofs.OptAll.
Open Scope N_scope.

(* optimisation always returns (never out of fuel, never an index panic): for every program, level, and fix setting *)
Theorem C10_optimize_total : forall fx code level input, optimize_prog fx code level input <> OptStuck.
Proof. exact optimize_total_t. Qed.
Print Assumptions C10_optimize_total.

(* termination of the speculative loop with an explicit bound in the program text only:
   at most (100 - jumps) * (len + 1) + (len - pc) + 1 interpreter steps, whatever the program's own running time *)
Theorem C10_speculation_bounded : forall fx code s pc j fuel, let len := N.of_nat (length code) in
  targets_ok len s -> pc <= len -> j <= 100 ->
  (N.to_nat ((100 - j) * (len + 1) + (len - pc)) < fuel)%nat ->
  match opt_loop fuel fx code s pc len j with OFuel | OPanic => False | ODone t => targets_ok len t | _ => True end.
Proof. exact oloop_total_t. Qed.
Print Assumptions C10_speculation_bounded.

(* nothing is read: the whole input is still there afterwards *)
Theorem C10_optimize_reads_nothing : forall fx code level input r,
  optimize_prog fx code level input = OptOk r -> inp (ostate r) = input.
Proof. exact optimize_no_read_t. Qed.
Print Assumptions C10_optimize_reads_nothing.

(* every speculative step leaves the input alone, and the only "exit" it can produce is the internal abandon signal:
   the exiting pop routine is never reached *)
Theorem C10_step_no_read : forall fx c pc s,
  inp (match oexecute_one fx c pc s with ROk _ t => t | RExit _ t => t | RErr _ t => t end) = inp s.
Proof. exact ostep_no_read_t. Qed.
Print Assumptions C10_step_no_read.
Theorem C10_step_never_exits : forall fx c pc s k s', oexecute_one fx c pc s = RExit k s' -> k = BAIL /\ inp s' = inp s.
Proof. exact ostep_exit_t. Qed.
Print Assumptions C10_step_never_exits.

(* non-vacuity: programs that read first thing, exit immediately, or loop forever are optimised to a result *)
Example C10_examples :
  (exists r, optimize_prog all_fixed (parse [55121; 32; 54637; 46]) 2 [Some [65; 10]] = OptOk r /\ inp (ostate r) = [Some [65; 10]]) /\
  (exists r, optimize_prog all_fixed (parse [55121; 46; 32; 54637]) 2 [] = OptOk r) /\
  (exists r, optimize_prog all_fixed (parse [54805; 46; 9829; 32; 54805; 46; 9829]) 2 [] = OptOk r /\ length (orest r) = 1%nat).
Proof. vm_compute. repeat split; eexists; split; reflexivity || idtac. Unshelve. all: try reflexivity. Qed.
Print Assumptions C10_examples.
