(* C12 — entering a program line by line interactively equals running it whole.  Property theorems only.
   Model: coq/Model/Repl.v (trim, keywords, per-line parse, execute() for each command with the persistent
   state, per-line capture and flush, clear).  [repl_run true fuel lines] gives, per entered line, what the user is
   shown, and how the session ends.  Programs are input-free (the interpreter shares stdin with the program). *)
From Coq Require Import List NArith Bool.
Import ListNotations.
From HV Require Import Model.Parse Model.Exec Model.Opt Model.Repl Proofs.OptSpec Proofs.AppSpec Proofs.AppAll Proofs.CoroSpec Proofs.App2Spec.
From HV Require Proofs.CoroProofs Proofs.App2Proofs.
Open Scope N_scope.

(* for every clear-free history — any cutting of the commands into lines, with blank and help lines in between —
   everything shown for stdout and for stderr, in order and exactly once, and the way the session ends, are those of
   running all the entered commands as one program (jumps back into commands of earlier lines included) *)
Theorem C12_line_by_line_equals_whole : forall fuel lines evs e, forallb plain_line lines = true ->
  repl_run true fuel lines = (evs, e) -> e <> RFuelOut ->
  exists F, beh (run_inc F [] (flat_map line_cmds lines) (state0 SUnopt [])) = (rkind e, shown_out evs, shown_err evs).
Proof. exact repl_whole_t. Qed.
Print Assumptions C12_line_by_line_equals_whole.

(* each line's text is the text its commands write: execute() command by command equals execute_one over the
   program loaded in advance — nothing ever refers to a command that has not been entered yet *)
Theorem C12_incremental_equals_preloaded : forall f done todo s, targets_ok (N.of_nat (length done)) s ->
  match run_inc f done todo s with
  | FFuel _ _ => True
  | x => run_pre (S f) (done ++ todo) s (N.of_nat (length done)) = x
  end.
Proof. exact inc_pre_t. Qed.
Print Assumptions C12_incremental_equals_preloaded.

(* the capture buffers are write-only: a line's run does not depend on what earlier lines wrote *)
Theorem C12_output_buffers_write_only : forall fuel done todo s o e,
  run_inc fuel done todo (add_io o e s) = map_final (add_io o e) (run_inc fuel done todo s).
Proof. exact run_inc_frame_t. Qed.
Print Assumptions C12_output_buffers_write_only.

(* `clear` returns to the initial state *)
Theorem C12_clear_resets : forall fx fuel line rest log s, leqb (trim line) KW_CLEAR = true ->
  repl fx fuel (line :: rest) log s =
  (let (ev, e) := repl fx fuel rest [] (state0 SUnopt (inp s)) in (EvFlush [] [] :: ev, e)).
Proof. exact repl_clear_t. Qed.
Print Assumptions C12_clear_resets.

(* hence what is shown for the lines after a `clear` is what a fresh session shows for them *)
Theorem C12_after_clear_is_fresh : forall fuel line rest log s, leqb (trim line) KW_CLEAR = true ->
  snd (repl true fuel (line :: rest) log s) = snd (repl true fuel rest [] (state0 SUnopt (inp s))) /\
  fst (repl true fuel (line :: rest) log s) = EvFlush [] [] :: fst (repl true fuel rest [] (state0 SUnopt (inp s))).
Proof. exact CoroProofs.repl_after_clear. Qed.
Print Assumptions C12_after_clear_is_fresh.

(* whole sessions with any number of `clear` lines: the text shown is, segment by segment, that of whole-program runs from the
   initial state; a segment that ends the session (program exit, diagnosed error) ends it with that run's status *)
Theorem C12_clear_splits_session : forall fuel seg c rest evs e, forallb plain_line seg = true ->
  leqb (trim c) KW_CLEAR = true -> repl_run true fuel (seg ++ c :: rest) = (evs, e) -> e <> RFuelOut ->
  exists F k o x, beh (run_inc F [] (flat_map line_cmds seg) (state0 SUnopt [])) = (k, o, x) /\
    ((k <> KDone /\ rkind e = k /\ shown_out evs = o /\ shown_err evs = x) \/
     (k = KDone /\ e = snd (repl_run true fuel rest) /\
      shown_out evs = o ++ shown_out (fst (repl_run true fuel rest)) /\
      shown_err evs = x ++ shown_err (fst (repl_run true fuel rest)))).
Proof. exact App2Proofs.repl_clear_split. Qed.
Print Assumptions C12_clear_splits_session.
Theorem C12_session_with_clears : forall fuel c segs evs e, Forall (fun seg => forallb plain_line seg = true) segs ->
  leqb (trim c) KW_CLEAR = true -> repl_run true fuel (join_clear c segs) = (evs, e) -> e <> RFuelOut ->
  session_beh segs (rkind e) (shown_out evs) (shown_err evs).
Proof. exact App2Proofs.repl_session. Qed.
Print Assumptions C12_session_with_clears.

(* the pinned tree (before fix 254b24c) dropped a line's text when the line ended in an error *)
Theorem C12_pinned_refuted : exists fuel lines, forallb plain_line lines = true /\
  shown_out (fst (repl_run false fuel lines)) <> shown_out (fst (repl_run true fuel lines)).
Proof. exact repl_pinned_refuted_t. Qed.
Print Assumptions C12_pinned_refuted.

Example C12_examples :
  let l1 := [54805;46;46;32;54805;46;46;46;10] in let l2 := [32;10] in let l3 := [54637;46;32;54637;46;10] in
  repl_run true 100 [l1; l2; l3] = ([EvFlush [] []; EvNothing; EvFlush [3; 2] []], RAlive) /\
  repl_run true 100 [l1 ++ l3] = ([EvFlush [3; 2] []], RAlive).
Proof. vm_compute. split; reflexivity. Qed.
Print Assumptions C12_examples.

(* non-vacuity of the session theorem: two lines, `clear`, the same two lines again — two segments, each shown as its whole run *)
Example C12_session_example :
  let l1 := [54805;46;46;32;54805;46;46;46;10] in let l3 := [54637;46;32;54637;46;10] in let c := [99;108;101;97;114;10] in
  repl_run true 100 (join_clear c [[l1; l3]; [l1; l3]]) = ([EvFlush [] []; EvFlush [3; 2] []; EvFlush [] []; EvFlush [] []; EvFlush [3; 2] []], RAlive) /\
  leqb (trim c) KW_CLEAR = true /\ forallb plain_line [l1; l3] = true /\
  beh (run_inc 100 [] (flat_map line_cmds [l1; l3]) (state0 SUnopt [])) = (KDone, [3; 2], []).
Proof. vm_compute. repeat split; reflexivity. Qed.
Print Assumptions C12_session_example.
