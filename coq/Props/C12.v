(* C12 — placeholder; replaced when Proofs/ReplProofs.v is in. *)
From Coq Require Import List NArith Bool.
Import ListNotations.
From HV Require Import Model.Exec Model.Repl.
Theorem C12_no_lines : forall fx fuel, repl_run fx fuel [] = ([], RAlive).
Proof. reflexivity. Qed.
Print Assumptions C12_no_lines.
