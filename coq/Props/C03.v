(* C03 — a compiled program behaves exactly like the interpreted program.  Property theorems only.
   Model: coq/Model/Compile.v — build_source as a function to a small IR (block partition, translated label table,
   start block, serialised pre-state, dispatch tree) and [ir_run], the semantics of the emitted program (prelude
   Stack::pop/push = the interpreter's wrappers, `while state < n { dispatch; state += 1 }` with `continue` on jumps).
   NOT provable here: that rustc accepts the emitted text and that the executable behaves as [ir_run] says — that is
   the rustc run of tools/hv/compchecks.py, which also compares the emitted structure with the IR.
   compiled_sound/complete cover levels 0 and 1 (no serialised pre-state; any container kind); the level-2 theorems cover
   the serialised pre-state, first under explicit premises on the pre-executed state, then unconditionally for what the
   optimiser returns; C03_emitted_program_sound/complete are the model-level statement of the property for every level.
   [_partial] marks statements for a sub-case; what stays outside Coq altogether is rustc (see above). *)
From Coq Require Import List NArith Bool.
Import ListNotations.
From HV Require Import Model.Parse Model.Exec Model.Opt Model.Compile Proofs.OptSpec Proofs.CompSpec Proofs.CoroSpec Proofs.Comp2Spec Proofs.Comp3Spec Proofs.Comp4Spec.
From HV Require Proofs.CompProofs Proofs.CompLevel2 Proofs.Comp3Proofs Proofs.Comp4Proofs.
Open Scope N_scope.

(* the generated if/else tree runs block i and only it when state = i, for every number of blocks *)
Theorem C03_dispatch_selects : forall n b, b < n -> tree_select (dispatch_tree n) b = b.
Proof. exact CompProofs.dispatch_selects. Qed.
Print Assumptions C03_dispatch_selects.

(* blocks: concatenation gives back the commands; each block is one area-carrying command or a run of area-free ones *)
Theorem C03_blocks_partition : forall code, concat (blocks code) = code /\ Forall block_ok (blocks code).
Proof. exact CompProofs.blocks_partition. Qed.
Print Assumptions C03_blocks_partition.

(* label and white-heart targets, translated from command index to block index, point at the block that is that command *)
Theorem C03_targets_translate : forall code i c, nth_error code (N.to_nat i) = Some c -> has_area c = true ->
  nth_error (blocks code) (N.to_nat (block_index code i)) = Some [c].
Proof. exact CompProofs.block_index_ok. Qed.
Print Assumptions C03_targets_translate.

(* the emitted program behaves like the interpreter (levels 0 and 1): every finished interpreter run is matched... *)
Theorem C03_compiled_sound_partial : forall k fuel code input,
  match run_pre fuel code (state0 k input) 0 with
  | FFuel _ _ => True
  | FPanic _ => True
  | x => exists fuel', ibeh (ir_run fuel' (build_ir true 1 (state0 k input) [] code) input) = beh x
  end.
Proof. exact CompProofs.compiled_sound. Qed.
Print Assumptions C03_compiled_sound_partial.
(* ... and conversely; the emitted program never reaches an undefined dispatch state *)
Theorem C03_compiled_complete_partial : forall k fuel code input,
  match ir_run fuel (build_ir true 1 (state0 k input) [] code) input with
  | IFuel _ => True
  | IBadState => False
  | y => exists fuel', beh (run_pre fuel' code (state0 k input) 0) = ibeh y
  end.
Proof. exact CompProofs.compiled_complete. Qed.
Print Assumptions C03_compiled_complete_partial.

(* level 2: the emitted program with its serialised pre-state (stacks printed as number texts and read back, selected
   stack, label table and white-heart target translated to block indices, start block, captured output printed first)
   resumes the interpreter exactly at the first residual command — both directions.  Premises: what pre-execution leaves
   behind as far as build_source relies on it: jump targets are area-carrying commands of the log, stack keys are unique
   and the stored numbers canonical (a NaN of negative sign would read back as the canonical NaN: behaviourally the same,
   structurally not — the one thing that keeps this from being unconditional) *)
Theorem C03_compiled_level2_sound_partial : forall s log rest input fuel, rest <> [] -> area_targets log s -> stacks_canon s ->
  match run_pre fuel (log ++ rest) (with_input s input) (N.of_nat (length log)) with
  | FFuel _ _ => True
  | FPanic _ => True
  | x => exists fuel', ibeh (ir_run fuel' (build_ir true 2 s log rest) input) = beh x
  end.
Proof. exact CompLevel2.compiled2_sound. Qed.
Print Assumptions C03_compiled_level2_sound_partial.
Theorem C03_compiled_level2_complete_partial : forall s log rest input fuel, rest <> [] -> area_targets log s -> stacks_canon s ->
  match ir_run fuel (build_ir true 2 s log rest) input with
  | IFuel _ => True
  | IBadState => False
  | y => exists fuel', beh (run_pre fuel' (log ++ rest) (with_input s input) (N.of_nat (length log))) = ibeh y
  end.
Proof. exact CompLevel2.compiled2_complete. Qed.
Print Assumptions C03_compiled_level2_complete_partial.

(* ... and for what the optimiser actually returns those premises hold (every interpreter step keeps jump targets on
   area-carrying commands, stack keys unique and stored numbers well-formed), so: for every program, the level-2 emitted
   program behaves like `hyeong run -O2` resumed after pre-execution — the single premise left is that no NaN of negative
   sign sits on a pre-executed stack *)
Theorem C03_interpreter_invariants : forall code c pc s, nth_error code (N.to_nat pc) = Some c -> small_code code ->
  area_targets code s -> stacks_wf s -> input_small s ->
  match execute_one c pc s with ROk _ t | RExit _ t | RErr _ t => area_targets code t /\ stacks_wf t /\ input_small t end.
Proof. exact Comp3Proofs.step_inv. Qed.
Print Assumptions C03_interpreter_invariants.
Theorem C03_compiled_level2_of_optimized_partial : forall code input r fuel, small_code (map xcode_of_ucode code) ->
  optimize_prog all_fixed code 2 [] = OptOk r -> orest r <> [] -> no_neg_nan (ostate r) ->
  match run_inc fuel (olog r) (orest r) (with_input (ostate r) input) with
  | FFuel _ _ => True
  | FPanic _ => True
  | x => exists fuel', ibeh (ir_run fuel' (build_ir true 2 (ostate r) (olog r) (orest r)) input) = beh x
  end.
Proof. exact Comp3Proofs.compiled2_optimized. Qed.
Print Assumptions C03_compiled_level2_of_optimized_partial.

(* the NaN premise removed: a NaN of negative sign (reachable: negate a NaN) is printed as the NaN text and read back as the
   canonical NaN, and no command distinguishes the two (simulation up to the representation of NaN); both directions *)
Theorem C03_compiled_level2_sound : forall code input r fuel, small_code (map xcode_of_ucode code) -> input_ok input ->
  optimize_prog all_fixed code 2 [] = OptOk r -> orest r <> [] ->
  match run_inc fuel (olog r) (orest r) (with_input (ostate r) input) with
  | FFuel _ _ => True
  | FPanic _ => True
  | x => exists fuel', ibeh (ir_run fuel' (build_ir true 2 (ostate r) (olog r) (orest r)) input) = beh x
  end.
Proof. exact Comp4Proofs.compiled2_opt_sound. Qed.
Print Assumptions C03_compiled_level2_sound.
Theorem C03_compiled_level2_complete : forall code input r fuel, small_code (map xcode_of_ucode code) -> input_ok input ->
  optimize_prog all_fixed code 2 [] = OptOk r -> orest r <> [] ->
  match ir_run fuel (build_ir true 2 (ostate r) (olog r) (orest r)) input with
  | IFuel _ => True
  | IBadState => False
  | y => exists fuel', beh (run_inc fuel' (olog r) (orest r) (with_input (ostate r) input)) = ibeh y
  end.
Proof. exact Comp4Proofs.compiled2_opt_complete. Qed.
Print Assumptions C03_compiled_level2_complete.

(* THE PROPERTY at model level: for every program the parser can yield (kinds 0..5, counts below 2^63), every level and every
   input, whatever app/build.rs hands to build_source (compile_prog) behaves like interpreting the program unoptimised:
   every finished level-0 run (normal end, exit c, unencodable value n — with all text written) is matched by the emitted
   program, and conversely; the emitted program never reaches an undefined dispatch state *)
Theorem C03_emitted_program_sound : forall level code input p fuel, level <= 2 -> kinds_ok code ->
  small_code (map xcode_of_ucode code) -> input_ok input ->
  compile_prog all_fixed true code level = Some p ->
  match run_level all_fixed fuel code 0 input with
  | FFuel _ _ => True
  | FPanic _ => True
  | x => exists fuel', ibeh (ir_run fuel' p input) = beh x
  end.
Proof. exact Comp4Proofs.compiled_end_to_end_sound. Qed.
Print Assumptions C03_emitted_program_sound.
Theorem C03_emitted_program_complete : forall level code input p fuel, level <= 2 -> kinds_ok code ->
  small_code (map xcode_of_ucode code) -> input_ok input ->
  compile_prog all_fixed true code level = Some p ->
  match ir_run fuel p input with
  | IFuel _ => True
  | IBadState => False
  | y => exists fuel', beh (run_level all_fixed fuel' code 0 input) = ibeh y
  end.
Proof. exact Comp4Proofs.compiled_end_to_end_complete. Qed.
Print Assumptions C03_emitted_program_complete.

(* the pinned compiler (before fix 7d19713) resumed a level-2 program at the wrong block; the repaired one agrees
   with the interpreter on the witness *)
Theorem C03_pinned_refuted : exists code input fuel p p',
  compile_prog all_fixed false code 2 = Some p /\ compile_prog all_fixed true code 2 = Some p' /\
  ibeh (ir_run fuel p input) <> ibeh (ir_run fuel p' input) /\
  ibeh (ir_run fuel p' input) = beh (run_level all_fixed fuel code 0 input).
Proof. exact CompProofs.compiled_pinned_refuted. Qed.
Print Assumptions C03_pinned_refuted.

(* non-vacuity: 형.. 형... 하앗... 흑 항. 흑... 항.  — level 2 pre-executes four commands (stack 3 holds 6, stack 0 a copy, stack 0
   selected) and leaves three; the emitted program started on the input "A\n" and the level-0 interpreter both write U+0006 then A *)
Example C03_examples :
  let src := [54805;46;46;32;54805;46;46;46;32;54616;50519;46;46;46;32;55121;32;54637;46;32;55121;46;46;46;32;54637;46] in
  (match optimize_prog all_fixed (parse src) 2 [] with OptOk r => (length (olog r), length (orest r)) | _ => (0, 0)%nat end) = (4, 3)%nat /\
  (forall level, In level [0; 1; 2] ->
     match compile_prog all_fixed true (parse src) level with
     | Some p => ibeh (ir_run 100 p [Some [65; 10]]) = (KDone, [6; 65], [])
     | None => False
     end) /\
  beh (run_level all_fixed 100 (parse src) 0 [Some [65; 10]]) = (KDone, [6; 65], []).
Proof.
  cbv zeta. split; [vm_compute; reflexivity|]. split; [|vm_compute; reflexivity].
  intros level [<-|[<-|[<-|[]]]]; vm_compute; reflexivity.
Qed.
Print Assumptions C03_examples.
