(* C03 — placeholder; replaced when the compiler model (Model/Compile.v) and its theorems are in. *)
From Coq Require Import List NArith Bool.
Import ListNotations.
From HV Require Import Model.Exec Model.Opt.
Theorem C03_level0_source_program : forall fx fuel code input,
  run_level fx fuel code 0%N input = run_inc fuel [] (map xcode_of_ucode code) (state0 SUnopt input).
Proof. reflexivity. Qed.
Print Assumptions C03_level0_source_program.
