(* C13 — placeholder; replaced when Proofs/CliProofs.v is in. *)
From Coq Require Import List NArith Bool.
Import ListNotations.
From HV Require Import Model.Exec Model.Opt Model.Utf8 Model.Cli.
Theorem C13_bad_extension : forall level b stdin fuel, run_cli level (FBytes false b) stdin fuel = CDiag DgExt [] [].
Proof. reflexivity. Qed.
Print Assumptions C13_bad_extension.
