(* C13 — the command-line tool ends in a defined way on any file and any input.  Property theorems only.
   Model: coq/Model/Cli.v — [run_cli level file stdin fuel] composes the extension test, UTF-8 decoding of the file
   (Model/Utf8.v), the parser, optimisation, the replay of captured output, the execute loop with stdin as byte chunks
   split at 0x0A and decoded per chunk; result: exit status with the bytes written, a diagnostic (status 1), still
   running, or a panic site of the model (index out of bounds on the code vector, optimiser stuck).
   Not provable here (exercised by tools/hv/clichecks.py): aborts that originate outside the modelled logic — stack
   exhaustion on deep Drop, out-of-memory, SIGPIPE, clap/termcolor internals, other file-system errors.
   The no-overflow facts for the arithmetic (u64 accumulators, u32 limb updates, sub_core indexing) are C05's. *)
From Coq Require Import List NArith Bool.
Import ListNotations.
From HV Require Import Model.Parse Model.Exec Model.Opt Model.Utf8 Model.Cli Proofs.OptSpec Proofs.UniSpec.
From HV Require Proofs.CliProofs.
From HV Require Model.Listing Proofs.Listing2Spec Proofs.Listing2Proofs.
Open Scope N_scope.

(* for any file bytes, file name class, stdin bytes, level and step budget: never a panic *)
Theorem C13_run_never_panics : forall level file stdin fuel, run_cli level file stdin fuel <> CPanic.
Proof. exact CliProofs.cli_no_panic. Qed.
Print Assumptions C13_run_never_panics.

Theorem C13_check_never_panics : forall file, check_cli file <> CPanic /\ check_cli file <> CRunning.
Proof. exact CliProofs.check_no_panic. Qed.
Print Assumptions C13_check_never_panics.

(* the interpreter loop never indexes the code vector out of bounds *)
Theorem C13_loop_in_bounds : forall fuel done todo s, targets_ok (N.of_nat (length done)) s ->
  forall t, run_inc fuel done todo s <> FPanic t.
Proof. exact CliProofs.run_inc_no_panic. Qed.
Print Assumptions C13_loop_in_bounds.

(* the expected diagnostic per failure class *)
Theorem C13_diagnostics : forall level b stdin fuel,
  run_cli level FUnreadable stdin fuel = CDiag DgFile [] [] /\
  run_cli level (FBytes false b) stdin fuel = CDiag DgExt [] [] /\
  (decode b = None -> run_cli level (FBytes true b) stdin fuel = CDiag DgUtf8File [] []).
Proof. intros level b stdin fuel. repeat split; try reflexivity. intros H. unfold run_cli. rewrite H. reflexivity. Qed.
Print Assumptions C13_diagnostics.

(* the layout arithmetic of the listing (`check`, and the debugger's echo with raw = true): usize subtraction is modelled with
   its failure; no padding width ever underflows, whatever the indices and locations; for `check` on any text the listing exists *)
Theorem C13_listing_layout_total : forall rawmode fname es,
  (rawmode = true \/ Forall (fun e => ty (snd e) < 6) es) -> Listing.listing_text rawmode fname es <> None.
Proof. exact Listing2Proofs.listing_total. Qed.
Print Assumptions C13_listing_layout_total.
Theorem C13_check_listing_total : forall fname text, Listing.check_listing fname text <> None.
Proof. exact Listing2Proofs.check_listing_total. Qed.
Print Assumptions C13_check_listing_total.

Example C13_examples :
  (* a program that reads a line which is not UTF-8; one that prints an unencodable value; overlong/surrogate files *)
  run_cli 0 (FBytes true [237;157;145;32;237;149;173;46]) [255; 10] 100 = CDiag DgUtf8Stdin [] [] /\
  (exists o e, run_cli 2 (FBytes true (encode ([54784;50612;50612;50612;50612;50612;50612;50633] ++ repeat 46 6912 ++ [32;54637;46]))) [] 100 = CDiag (DgEnc 55296) o e) /\
  run_cli 1 (FBytes true [192; 128]) [] 100 = CDiag DgUtf8File [] [] /\
  run_cli 1 (FBytes true [237; 160; 128]) [] 100 = CDiag DgUtf8File [] [].
Proof. vm_compute. repeat split; try reflexivity. eexists. eexists. reflexivity. Qed.
Print Assumptions C13_examples.
