(* C09 — numbers survive being written as text and read back.  Property theorems only.
   Model: coq/Model/NumText.v. *)
From Coq Require Import List NArith ZArith Bool.
Import ListNotations.
From HV Require Import Model.Big Model.Rat Model.NumText Model.Compile Proofs.TextBase Proofs.RatSpec Proofs.TextAll Proofs.CoroSpec Proofs.Text2Spec Proofs.Text2All.
From HV Require Proofs.CoroProofs.
Open Scope N_scope.

(* conventional rendering: optional '-', then a non-empty string of digits 0-9A-Z below the base without a
   leading zero (unless the number is 0) whose value is |a|; also: the divide-by-base loop terminates *)
Theorem C09_to_string_conventional : forall a base, wf a -> 2 <= base <= 36 ->
  exists ds, to_string_base a base = TSOk ((if bpos a then [] else [CH_MINUS]) ++ ds) /\
    ds <> [] /\ Forall (digit_ok base) ds /\ (hd 0 ds = 48 -> ds = [48]) /\
    digits_val base ds 0 = Z.abs_N (bval a).
Proof. exact tsb_t. Qed.
Print Assumptions C09_to_string_conventional.

Theorem C09_int_roundtrip : forall a base s, wf a -> 2 <= base <= 36 ->
  to_string_base a base = TSOk s -> from_string_base s base = FSOk a.
Proof. exact fsb_tsb_t. Qed.
Print Assumptions C09_int_roundtrip.

(* rationals incl. negatives, fractions and NaN: reading back the decimal rendering returns the same number
   (a NaN of either sign reads back as the canonical NaN) *)
Theorem C09_num_roundtrip : forall n, wfn n -> num_from_string (num_display n) = Some (if is_nan n then nan else n).
Proof. exact num_roundtrip_t. Qed.
Print Assumptions C09_num_roundtrip.

(* the mechanism by which a level-2 compiled program restores the stacks computed at compile time: the number texts
   embedded in the emitted source read back as the stack itself (values canonical; a NaN stored as the canonical NaN) *)
Theorem C09_compiled_stack_texts : forall l, Forall canon_num l -> deser_stack (ser_stack l) = Some l.
Proof. exact CoroProofs.stack_roundtrip. Qed.
Print Assumptions C09_compiled_stack_texts.

Theorem C09_to_string_base_range : forall a base, base = 0 \/ 36 < base -> to_string_base a base = TSBase.
Proof. exact tsb_base_range. Qed.
Print Assumptions C09_to_string_base_range.
Theorem C09_from_string_base_range : forall s base, base = 0 \/ 36 < base -> from_string_base s base = FSBase.
Proof. exact fsb_base_range. Qed.
Print Assumptions C09_from_string_base_range.

(* reading ANY text, not only a canonical rendering: for every base 1..36 a text whose body (after an optional leading
   minus) consists of 0-9A-Z reads as the Horner value of its digits - leading zeros, digits at or above the base and
   the empty body included - negated after the minus, in normal form (except the negative zero of "-0...0"); every other
   text is rejected with a parse error: exactly the characters outside 0-9A-Z are rejected *)
Theorem C09_from_string_any_text : forall s base, 1 <= base <= 36 ->
  let neg := fst (fsb_sign s) in
  let body := snd (fsb_sign s) in
  (all_digits body ->
     exists a, from_string_base s base = FSOk a /\
       bval a = (if neg then - Z.of_N (digits_val base body 0) else Z.of_N (digits_val base body 0))%Z /\
       (neg = false \/ bval a <> 0%Z -> wf a)) /\
  (~ all_digits body -> from_string_base s base = FSParse).
Proof. exact fsb_any_t. Qed.
Print Assumptions C09_from_string_any_text.

Example C09_examples :
  to_string_base (mkbig false [255]) 16 = TSOk [45; 70; 70] /\
  from_string_base [45; 70; 70] 16 = FSOk (mkbig false [255]) /\
  num_from_string (num_display (nnew (-7) 3)) = Some (nnew (-7) 3) /\
  to_string_base (mkbig true [0; 1]) 36 = TSOk [49; 90; 49; 52; 49; 90; 52] /\
  from_string_base [45; 48; 48; 55] 10 = FSOk (mkbig false [7]) /\
  from_string_base [48; 90] 2 = FSOk (mkbig true [35]) /\
  from_string_base [49; 97] 16 = FSParse /\
  from_string_base [49; 45] 10 = FSParse.
Proof. vm_compute. repeat split; reflexivity. Qed.
Print Assumptions C09_examples.
