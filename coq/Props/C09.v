(* C09 — numbers survive printing and reading back: property theorems. *)
From Coq Require Import List NArith ZArith Bool.
From HV Require Import Model.Big Model.Rat Model.NumText Proofs.TextBase.
Open Scope N_scope.

Theorem C09_to_string_base_range : forall a base, base = 0 \/ 36 < base -> to_string_base a base = TSBase.
Proof. exact tsb_base_range. Qed.
Print Assumptions C09_to_string_base_range.
Theorem C09_from_string_base_range : forall s base, base = 0 \/ 36 < base -> from_string_base s base = FSBase.
Proof. exact fsb_base_range. Qed.
Print Assumptions C09_from_string_base_range.
