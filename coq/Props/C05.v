(* C05 — big integers compute like mathematical integers: property theorems (statements pinned in PINS.json). *)
From Coq Require Import List NArith ZArith Bool.
From HV Require Import Model.Big Proofs.BigBase.
Open Scope N_scope.

Theorem C05_add_core_val : forall a b, lval (add_core a b) = lval a + lval b.
Proof. exact add_core_val. Qed.
Print Assumptions C05_add_core_val.
