(* C05 — big integers compute exactly like mathematical integers.  Property theorems only: each is closed by
   [exact] of a lemma proved in Proofs/, and followed by Print Assumptions.  Statements are pinned (PINS.json).
   Model: coq/Model/Big.v (limb vectors, carry/borrow chains, schoolbook multiplication with u64
   accumulators, bitwise quotient search, sign dispatch).  [bval] is the mathematical value, [wf] the
   representation invariant (limbs < 2^32, no leading zero limb, zero non-negative). *)
From Coq Require Import List NArith ZArith Bool.
Import ListNotations.
From HV Require Import Model.Big Proofs.BigSpec Proofs.BigAll.
From HV Require Import Proofs.CoroSpec.
From HV Require Proofs.BigMul Proofs.BigDiv Proofs.CoroProofs.
Open Scope Z_scope.

Theorem C05_add : forall a b, wf a -> wf b -> wf (badd a b) /\ bval (badd a b) = bval a + bval b.
Proof. exact badd_t. Qed.
Print Assumptions C05_add.

Theorem C05_sub : forall a b, wf a -> wf b -> wf (bsub a b) /\ bval (bsub a b) = bval a - bval b.
Proof. exact bsub_t. Qed.
Print Assumptions C05_sub.

Theorem C05_mul : forall a b, wf a -> wf b -> wf (bmul a b) /\ bval (bmul a b) = bval a * bval b.
Proof. exact bmul_t. Qed.
Print Assumptions C05_mul.

(* truncating division; remainder has the sign of the dividend *)
Theorem C05_div : forall a b, wf a -> wf b -> bval b <> 0 -> wf (bdiv a b) /\ bval (bdiv a b) = Z.quot (bval a) (bval b).
Proof. exact bdiv_t. Qed.
Print Assumptions C05_div.

Theorem C05_rem : forall a b, wf a -> wf b -> bval b <> 0 -> wf (brem a b) /\ bval (brem a b) = Z.rem (bval a) (bval b).
Proof. exact brem_t. Qed.
Print Assumptions C05_rem.

Theorem C05_neg : forall a, wf a -> wf (bneg a) /\ bval (bneg a) = - bval a.
Proof. exact bneg_t. Qed.
Print Assumptions C05_neg.

Theorem C05_eq : forall a b, wf a -> wf b -> (beq a b = true <-> bval a = bval b).
Proof. exact beq_t. Qed.
Print Assumptions C05_eq.

Theorem C05_cmp : forall a b, wf a -> wf b -> bcmp a b = (bval a ?= bval b).
Proof. exact bcmp_t. Qed.
Print Assumptions C05_cmp.

(* normalised form: the representation is unique, so results are THE normalised representation *)
Theorem C05_normal_form_unique : forall a b, wf a -> wf b -> bval a = bval b -> a = b.
Proof. exact wf_unique_t. Qed.
Print Assumptions C05_normal_form_unique.

(* results depend on the operands' values only (the in-place operators `+=` ... are set_move of the pure result: the same
   functions in the model; their agreement on the real code is decided by the differential run) *)
Theorem C05_results_depend_on_values_only : forall a a' b b', wf a -> wf a' -> wf b -> wf b' -> bval a = bval a' -> bval b = bval b' ->
  badd a b = badd a' b' /\ bsub a b = bsub a' b' /\ bmul a b = bmul a' b'.
Proof. exact CoroProofs.badd_respects. Qed.
Print Assumptions C05_results_depend_on_values_only.

(* gcd: the Euclid loop terminates within its fuel and returns a value of the right magnitude *)
Theorem C05_gcd : forall a b, wf a -> wf b ->
  exists g, bgcd a b = Some g /\ wf g /\ Z.abs (bval g) = Z.gcd (bval a) (bval b).
Proof. exact bgcd_t. Qed.
Print Assumptions C05_gcd.

(* construction from a machine integer (isize: |n| <= 2^63 < 2^127) *)
Theorem C05_new : forall n, Z.abs n < 2 ^ 127 -> wf (bnew n) /\ bval (bnew n) = n.
Proof. exact bnew_t. Qed.
Print Assumptions C05_new.

Theorem C05_from_vec : forall v, limbs_ok v -> v <> [] -> wf (from_vec v) /\ bval (from_vec v) = Z.of_N (lval v).
Proof. exact from_vec_t. Qed.
Print Assumptions C05_from_vec.

(* machine-arithmetic side conditions of the Rust code: the u64 accumulators of mult_core never reach 2^64
   (no debug-build overflow panic, no release-build wrap) and the final `as u32` cast is lossless *)
Theorem C05_mult_no_overflow : forall a b, limbs_ok a -> limbs_ok b ->
  Forall (fun x => (x < U64)%N) (BigMul.mult_trace a b) /\ mult_acc a b = mult_core a b.
Proof. intros a b Ha Hb. split; [exact (BigMul.mult_no_overflow a b Ha Hb) | exact (proj2 (proj2 (proj2 (mult_core_t a b Ha Hb))))]. Qed.
Print Assumptions C05_mult_no_overflow.

(* every intermediate quotient vector of div_core keeps its limbs below 2^32 (`v[i] += 1 << j` cannot overflow) *)
Theorem C05_div_no_overflow : forall a b, limbs_ok a -> limbs_ok b -> a <> [] -> b <> [] -> lval b <> 0%N ->
  forall p s, div_order (Nat.max (length a) (length b)) = p ++ s ->
  limbs_ok (fold_left (div_step a b) p (repeat 0%N (Nat.max (length a) (length b)))).
Proof. exact (BigDiv.div_prefix_ok mult_core_t less_core_t). Qed.
Print Assumptions C05_div_no_overflow.

(* sub_core never indexes out of bounds on normalised operands *)
Theorem C05_sub_in_bounds : forall a b, normal a -> normal b -> sub_core_safe a b.
Proof. exact sub_core_safe_t. Qed.
Print Assumptions C05_sub_in_bounds.

(* the pinned tree (before fix 2ad6713) violated C05_new: witness n = 2^32 + 5 *)
Theorem C05_new_pre_fix_refuted : exists n, Z.abs n < 2 ^ 127 /\ bval (new_pre_fix n) <> n.
Proof. exists 4294967301. split; [reflexivity | vm_compute; discriminate]. Qed.
Print Assumptions C05_new_pre_fix_refuted.

(* non-vacuity: multi-limb, negative and zero values are well-formed (decided by the boolean mirror [wfb]) *)
Example C05_wf_examples :
  wfb (mkbig false [4294967295%N; 0%N; 7%N]) = true /\ wfb (mkbig true [0%N]) = true /\
  wfb (bnew (-9223372036854775808)) = true /\
  bval (bdiv (mkbig false [5%N; 1%N]) (mkbig true [3%N])) = -1431655767.
Proof. vm_compute. repeat split; reflexivity. Qed.
Print Assumptions C05_wf_examples.
