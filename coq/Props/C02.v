(* C02 — optimisation levels 1 and 2 never change what a program does.  Property theorems only.
   Model: coq/Model/Opt.v (liveness scan, dense renumbering with a shared garbage slot, speculative
   execution with guards / 100-jump budget / roll-back, capture of output, the run.rs wiring) over
   coq/Model/Exec.v.  [beh] of a run = (how it ended, stdout text, stderr text).  [run_level fx fuel code lv input]
   is what `hyeong run -O<lv>` does within a budget of [fuel] executed commands.
   Premise [kinds_ok]: command kinds are 0..5 — true of everything the parser produces (C02_parser_kinds). *)
From Coq Require Import List NArith Bool.
Import ListNotations.
From HV Require Import Model.Parse Model.Exec Model.Opt Model.Utf8 Model.Cli Spec.Lang Proofs.OptSpec Proofs.OptAll Proofs.UniSpec Proofs.TopSpec.
From HV Require Proofs.TopProofs.
Open Scope N_scope.

(* level 1 runs in lockstep with the unoptimised run: same behaviour for EVERY step budget (terminating or not) *)
Theorem C02_level1 : forall fuel code input, kinds_ok code ->
  beh (run_level all_fixed fuel code 1 input) = beh (run_level all_fixed fuel code 0 input).
Proof. exact level1_wt_t. Qed.
Print Assumptions C02_level1.

(* level 2: the pre-executed prefix costs k steps; for every budget f of the optimised run, the unoptimised run with
   budget k+f behaves the same.  If optimisation stops with an encoding error, so does the unoptimised run (same error). *)
Theorem C02_level2 : forall code input, kinds_ok code ->
  match optimize_prog all_fixed code 2 input with
  | OptOk r => exists k, forall f, beh (run_level all_fixed (k + f) code 0 input) = beh (run_level all_fixed f code 2 input)
  | OptErr e => exists f s', run_level all_fixed f code 0 input = FErr e s' /\ exists n, e = EEnc n
  | OptStuck => False
  end.
Proof. exact level2_wt_t. Qed.
Print Assumptions C02_level2.

(* non-terminating programs: a smaller budget only sees a prefix of the output, so the outputs of the optimised and
   unoptimised runs are prefix-compatible *)
Theorem C02_output_grows_with_budget : forall f f' done todo s, (f <= f')%nat ->
  match run_inc f done todo s with
  | FFuel t _ => out_prefix (rev (outb t)) (rev (outb (final_state (run_inc f' done todo s)))) /\
                 out_prefix (rev (errb t)) (rev (errb (final_state (run_inc f' done todo s))))
  | x => run_inc f' done todo s = x
  end.
Proof. exact run_mono_t. Qed.
Print Assumptions C02_output_grows_with_budget.

(* the renumbering keeps every selectable stack in a private slot (the obligation on the liveness pass) *)
Theorem C02_renumbering_private : forall code m mx, renum_map all_fixed code = (m, mx) ->
  (forall i, selectable code i -> renum m mx i < mx /\ (i <= 3 -> renum m mx i = i)) /\
  (forall i j, selectable code i -> renum m mx i = renum m mx j -> i = j) /\
  (forall j, renum m mx j <= mx) /\ 4 <= mx.
Proof. exact renum_private_t. Qed.
Print Assumptions C02_renumbering_private.

(* a speculative step that completes is a real step that read nothing *)
Theorem C02_speculation_sound : forall c pc s pc' j s',
  oexecute_one all_fixed c pc s = ROk (pc', j) s' -> execute_one c pc s = ROk pc' s' /\ inp s' = inp s.
Proof. exact ostep_sound_t. Qed.
Print Assumptions C02_speculation_sound.

Theorem C02_parser_kinds : forall text, kinds_ok (parse text).
Proof. exact parse_kinds_ok. Qed.
Print Assumptions C02_parser_kinds.

(* capstone, composing file decoding, the parser, C01 and the theorems above: whatever the language definition says a
   program does on an input — normal end, program-requested exit, unencodable value — `hyeong run -O<level>` (CLI model)
   does at EVERY level 0, 1, 2: same exit status and the same bytes on stdout and stderr; on an unencodable value the same
   diagnostic, with all earlier output at level 0 (at levels 1 and 2 it may be withheld) *)
Theorem C02_every_level_meets_the_definition_done : forall level text input f s, level <= 2 -> scalars text -> scalars input -> small_text text ->
  srun f (prog_of_text text) (lstate0 (lines_of input)) 0 = SDone s ->
  exists F, run_cli level (FBytes true (encode text)) (encode input) F = CExit 0 (encode (out s)) (encode (err s)).
Proof. exact TopProofs.cli_done. Qed.
Print Assumptions C02_every_level_meets_the_definition_done.
Theorem C02_every_level_meets_the_definition_exit : forall level text input f c s, level <= 2 -> scalars text -> scalars input -> small_text text ->
  srun f (prog_of_text text) (lstate0 (lines_of input)) 0 = SExited c s ->
  exists F, run_cli level (FBytes true (encode text)) (encode input) F = CExit c (encode (out s)) (encode (err s)).
Proof. exact TopProofs.cli_exit. Qed.
Print Assumptions C02_every_level_meets_the_definition_exit.
Theorem C02_every_level_meets_the_definition_enc : forall level text input f n s, level <= 2 -> scalars text -> scalars input -> small_text text ->
  srun f (prog_of_text text) (lstate0 (lines_of input)) 0 = SFailed (SEnc n) s ->
  exists F o e, run_cli level (FBytes true (encode text)) (encode input) F = CDiag (DgEnc n) o e /\
    (level = 0 -> o = encode (out s) /\ e = encode (err s)).
Proof. exact TopProofs.cli_enc. Qed.
Print Assumptions C02_every_level_meets_the_definition_enc.

(* the pinned optimiser violated the property; witnesses replayed on the model with the pinned flags:
   D7 (level 1, shared slot), D5 (level 2, operand order), D6 (level 2, output kept and repeated) *)
Definition src_d7 : list N := [54805;46;9829;32;54637;46;32;54805;46;32;54637;46;46;46;46;46;32;54805;46;46;46;32;55121;46;46;46;46;32;54805;46;63;63;9829;33].
Definition src_d6 : list N := [55121;46;33;9829].
Theorem C02_pinned_refuted :
  beh (run_level pinned 1000 (parse src_d7) 1 []) <> beh (run_level pinned 1000 (parse src_d7) 0 []) /\
  beh (run_level all_fixed 1000 (parse src_d7) 1 []) = beh (run_level all_fixed 1000 (parse src_d7) 0 []) /\
  beh (run_level pinned 1000 (parse src_d6) 2 []) <> beh (run_level pinned 1000 (parse src_d6) 0 []) /\
  beh (run_level all_fixed 1000 (parse src_d6) 2 []) = beh (run_level all_fixed 1000 (parse src_d6) 0 []).
Proof. vm_compute. repeat split; try reflexivity; discriminate. Qed.
Print Assumptions C02_pinned_refuted.
