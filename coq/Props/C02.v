(* C02 — optimisation levels 1 and 2 never change what a program does.  (Theorems under construction: the
   renumbering simulation and the pre-execution soundness are stated in Proofs/OptSpec.v.) *)
From Coq Require Import List NArith Bool.
Import ListNotations.
From HV Require Import Model.Parse Model.Exec Model.Opt.

Theorem C02_level0_is_plain_run : forall fx fuel code input,
  run_level fx fuel code 0%N input = run_inc fuel [] (map xcode_of_ucode code) (state0 SUnopt input).
Proof. reflexivity. Qed.
Print Assumptions C02_level0_is_plain_run.
