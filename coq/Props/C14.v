(* C14 — Unicode text passes through a program unchanged.  Property theorems only.
   Stated over the language definition L2 (coq/Spec/Lang.v), which the interpreter refines (C01), the optimiser
   preserves (C02) and the compiled program reproduces (C03), and over the UTF-8 codec model (coq/Model/Utf8.v: the
   documented behaviour of Rust's String::from_utf8 / char::encode_utf8).  The real stdin/stdout byte path and the
   compiled executables are observed by tools/hv/unichecks.py.
   A limit of the language: a program can only jump to commands it has already executed, so every command of a run
   that ends by running off the end has executed at least once; hence no program prints on non-empty input and
   prints nothing on empty input.  The copy loop is therefore claimed for non-empty inputs; COPY 0 covers the empty text. *)
From Coq Require Import List NArith Bool.
Import ListNotations.
From HV Require Import Model.Parse Model.Exec Model.Opt Model.Utf8 Model.Cli Model.Compile Spec.Lang Proofs.UniSpec Proofs.ExtraSpec Proofs.Uni2Spec.
From HV Require Proofs.UniProofs Proofs.ExtraProofs Proofs.Uni2Proofs Proofs.Uni2All.
Open Scope N_scope.

(* every valid text survives encoding and decoding: every scalar value U+0000..U+10FFFF, any length *)
Theorem C14_utf8_roundtrip : forall t, scalars t -> decode (encode t) = Some t.
Proof. exact UniProofs.utf8_roundtrip. Qed.
Print Assumptions C14_utf8_roundtrip.

(* the bytes on standard input are read as the lines of the text, each with its line break, a missing final line break
   and empty lines included *)
Theorem C14_stdin_lines : forall t, scalars t -> stdin_lines (encode t) = map Some (split_nl t []).
Proof. exact UniProofs.stdin_lines_ok. Qed.
Print Assumptions C14_stdin_lines.
Theorem C14_lines_cover_text : forall t, concat (split_nl t []) = t /\ Forall (fun l => l <> []) (split_nl t []).
Proof. exact UniProofs.split_nl_concat. Qed.
Print Assumptions C14_lines_cover_text.

(* the k-th value popped from standard input is the k-th character; end of input is seen as NaN, and only then *)
Theorem C14_stdin_stream : forall k t, small_scalars t ->
  exists s, srun (S (S k)) (stream_prog k) (lstate0 (lines_of t)) 0 = SDone s /\
            sget s 3 = repeat VNaN (match t with [] => 0%nat | _ => k - length t end) ++ rev (map vnat (firstn k t)) /\
            out s = [] /\ err s = [].
Proof. exact UniProofs.stdin_stream. Qed.
Print Assumptions C14_stdin_stream.

(* a fixed number of characters *)
Theorem C14_copy_n : forall n t, small_scalars t ->
  exists s, srun (S (S n)) (copy_prog n) (lstate0 (lines_of t)) 0 = SDone s /\
            out s = firstn n t ++ nan_texts (n - length t) /\ err s = [].
Proof. exact UniProofs.copy_n_ok. Qed.
Print Assumptions C14_copy_n.

(* in a loop until end of input: the whole text, exactly, and the program terminates *)
Theorem C14_cat_loop : forall t, t <> [] -> small_scalars t ->
  exists fuel s, srun fuel cat_prog (lstate0 (lines_of t)) 0 = SDone s /\ out s = t /\ err s = [].
Proof. exact UniProofs.cat_loop. Qed.
Print Assumptions C14_cat_loop.

(* end to end through the models of the file reader, parser, interpreter (limb-level numbers) and stdin/stdout codecs:
   `hyeong run -O0` of the copy-loop source on the bytes of any non-empty valid text writes exactly those bytes *)
Theorem C14_cat_through_cli : forall t, t <> [] -> scalars t ->
  exists fuel, run_cli 0 (FBytes true (encode CAT_SRC)) (encode t) fuel = CExit 0 (encode t) [].
Proof. exact ExtraProofs.cat_cli. Qed.
Print Assumptions C14_cat_through_cli.

(* "identically when interpreted at each optimisation level and when compiled": the copy loop and the fixed-count copy
   (COPY_SRC n = 흑 followed by n times " 항.") through `hyeong run -O<level>` for every level, bytes in = bytes out ... *)
Theorem C14_cat_every_level : forall level t, level <= 2 -> t <> [] -> scalars t ->
  exists fuel, run_cli level (FBytes true (encode CAT_SRC)) (encode t) fuel = CExit 0 (encode t) [].
Proof. exact Uni2Proofs.cat_cli_levels. Qed.
Print Assumptions C14_cat_every_level.
Theorem C14_copy_every_level : forall level n t, level <= 2 -> scalars t ->
  exists fuel, run_cli level (FBytes true (encode (COPY_SRC n))) (encode t) fuel =
               CExit 0 (encode (firstn n t ++ nan_texts (n - length t))) [].
Proof. exact Uni2Proofs.copy_cli_levels. Qed.
Print Assumptions C14_copy_every_level.
(* ... and compiled at every level: the compiler returns a program for them, and the emitted program (Model/Compile.v) run on
   the lines of the text ends normally having written exactly the text (resp. its prefix, then the NaN text) *)
Theorem C14_copy_programs_compile : forall level n, level <= 2 ->
  (exists p, compile_prog all_fixed true (parse CAT_SRC) level = Some p) /\
  (exists p, compile_prog all_fixed true (parse (COPY_SRC n)) level = Some p).
Proof. exact Uni2Proofs.copy_compiles. Qed.
Print Assumptions C14_copy_programs_compile.
Theorem C14_cat_compiled : forall level t p, level <= 2 -> t <> [] -> scalars t ->
  compile_prog all_fixed true (parse CAT_SRC) level = Some p ->
  exists fuel s, ir_run fuel p (lines_of t) = IDone s /\ rev (outb s) = t /\ rev (errb s) = [].
Proof. exact Uni2All.cat_compiled_t. Qed.
Print Assumptions C14_cat_compiled.
Theorem C14_copy_compiled : forall level n t p, level <= 2 -> scalars t ->
  compile_prog all_fixed true (parse (COPY_SRC n)) level = Some p ->
  exists fuel s, ir_run fuel p (lines_of t) = IDone s /\ rev (outb s) = firstn n t ++ nan_texts (n - length t) /\ rev (errb s) = [].
Proof. exact Uni2All.copy_compiled_t. Qed.
Print Assumptions C14_copy_compiled.

Example C14_examples :
  decode (encode [0; 127; 128; 2047; 2048; 55295; 57344; 65535; 65536; 1114111]) = Some [0; 127; 128; 2047; 2048; 55295; 57344; 65535; 65536; 1114111] /\
  decode [237; 160; 128] = None /\ decode [192; 128] = None /\ decode [244; 144; 128; 128] = None /\
  is_scalar_value 55296 = false.
Proof. vm_compute. repeat split; reflexivity. Qed.
Print Assumptions C14_examples.

(* COPY 2 on the text "Aé\n" at level 2 of `hyeong run`: the first two characters, byte for byte *)
Example C14_levels_example :
  run_cli 2 (FBytes true (encode (COPY_SRC 2))) (encode [65; 233; 10]) 100 = CExit 0 [65; 195; 169] [] /\
  (forall level, In level [0; 1; 2] ->
     match compile_prog all_fixed true (parse (COPY_SRC 2)) level with
     | Some p => match ir_run 100 p (lines_of [65; 233; 10]) with IDone s => rev (outb s) = [65; 233] | _ => False end
     | None => False
     end).
Proof. split; [vm_compute; reflexivity|]. intros level [<-|[<-|[<-|[]]]]; vm_compute; reflexivity. Qed.
Print Assumptions C14_levels_example.
