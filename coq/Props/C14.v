(* C14 — placeholder; replaced when Proofs/UniProofs.v is in. *)
From Coq Require Import List NArith Bool.
Import ListNotations.
From HV Require Import Model.Utf8.
Theorem C14_ascii_roundtrip : decode (encode [65; 10; 0]) = Some [65; 10; 0].
Proof. reflexivity. Qed.
Print Assumptions C14_ascii_roundtrip.
