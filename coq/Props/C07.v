(* C07 — comparison of rationals is the numeric order; NaN is unordered.  Property theorems only. *)
From Coq Require Import List NArith ZArith QArith Bool.
Import ListNotations.
From HV Require Import Model.Big Model.Rat Model.Parse Model.Exec Spec.Lang Proofs.RatBase Proofs.RatSpec Proofs.RatAll Proofs.ExecSpec Proofs.CoroSpec.
From HV Require Proofs.CoroProofs.
Open Scope Z_scope.

Theorem C07_cmp : forall a b, wfn a -> wfn b ->
  ncmp a b = match nval a, nval b with Some x, Some y => Some (x ?= y)%Q | _, _ => None end.
Proof. exact ncmp_t. Qed.
Print Assumptions C07_cmp.

Theorem C07_nan_unordered : forall a b, is_nan a = true \/ is_nan b = true -> ncmp a b = None.
Proof. exact ncmp_nan. Qed.
Print Assumptions C07_nan_unordered.

(* consequently, at program level (area::calc with a pop that yields v): a `?` node takes its left branch iff the popped
   value is below the command's count, a `!` node iff it equals it; NaN always goes right ([vlt]/[veq] are false on NaN) *)
Theorem C07_question_branch : forall v cnt l r s, wfn v -> (cnt < 2 ^ 63)%N ->
  calc (Val 0 l r) cnt (ret v) s = calc (if vlt (vof v) cnt then l else r) cnt (ret v) s.
Proof. exact CoroProofs.calc_question. Qed.
Print Assumptions C07_question_branch.
Theorem C07_bang_branch : forall v cnt l r s, wfn v -> (cnt < 2 ^ 63)%N ->
  calc (Val 1 l r) cnt (ret v) s = calc (if veq (vof v) cnt then l else r) cnt (ret v) s.
Proof. exact CoroProofs.calc_bang. Qed.
Print Assumptions C07_bang_branch.

(* the pinned tree (before fix ee4735c) compared up*down' with down*down': 5 vs 7 was Greater *)
Theorem C07_cmp_pre_fix_refuted :
  exists a b, wfnb a = true /\ wfnb b = true /\ ncmp_pre_fix a b = Some Gt /\ ncmp a b = Some Lt.
Proof. exists (from_num 5), (from_num 7). vm_compute. repeat split; reflexivity. Qed.
Print Assumptions C07_cmp_pre_fix_refuted.

Example C07_examples :
  ncmp (nnew 1 2) (nnew 1 3) = Some Gt /\ ncmp (nnew (-7) 3) (nnew (-5) 2) = Some Gt /\
  ncmp (nnew 2 4) (nnew 1 2) = Some Eq /\ ncmp nan (nnew 1 1) = None.
Proof. vm_compute. repeat split; reflexivity. Qed.
Print Assumptions C07_examples.
