(* C07 — comparison is the numeric order, NaN unordered: property theorems. *)
From Coq Require Import List NArith ZArith Bool.
From HV Require Import Model.Big Model.Rat Proofs.RatBase.
Open Scope N_scope.

Theorem C07_nan_unordered : forall a b, is_nan a = true \/ is_nan b = true -> ncmp a b = None.
Proof. exact ncmp_nan. Qed.
Print Assumptions C07_nan_unordered.
