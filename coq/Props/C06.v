(* C06 — rationals are exact, canonical, NaN absorbing: property theorems. *)
From Coq Require Import List NArith ZArith Bool.
From HV Require Import Model.Big Model.Rat Model.NumText Proofs.RatBase.
Open Scope N_scope.

Theorem C06_nan_absorbing_add : forall a b, is_nan a = true \/ is_nan b = true -> nadd a b = nan.
Proof. exact nadd_absorbs. Qed.
Print Assumptions C06_nan_absorbing_add.
Theorem C06_nan_absorbing_mul : forall a b, is_nan a = true \/ is_nan b = true -> nmul a b = nan.
Proof. exact nmul_absorbs. Qed.
Print Assumptions C06_nan_absorbing_mul.
Theorem C06_nan_neg : forall a, is_nan a = true -> is_nan (nneg a) = true.
Proof. exact nneg_nan. Qed.
Print Assumptions C06_nan_neg.
Theorem C06_nan_flip : forall a, is_nan a = true -> nflip a = a.
Proof. exact nflip_nan. Qed.
Print Assumptions C06_nan_flip.
Theorem C06_nan_text : forall a, is_nan a = true -> num_display a = NAN_TEXT.
Proof. exact nan_display. Qed.
Print Assumptions C06_nan_text.
