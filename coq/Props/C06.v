(* C06 — rationals compute exactly, stay canonical, NaN is absorbing.  Property theorems only.
   Model: coq/Model/Rat.v.  [nval n : option Q] is the mathematical value (None = NaN), [wfn] the canonical
   form (parts well-formed, denominator >= 0, lowest terms, NaN = ±1/0), [oq_eq] is Qeq lifted to option. *)
From Coq Require Import List NArith ZArith QArith Qround Bool.
Import ListNotations.
From HV Require Import Model.Big Model.Rat Model.NumText Proofs.RatBase Proofs.RatSpec Proofs.RatAll Proofs.TextAll Proofs.RatNew.
Open Scope Z_scope.

Theorem C06_add : forall a b, wfn a -> wfn b ->
  wfn (nadd a b) /\ oq_eq (nval (nadd a b)) (lift2 Qplus (nval a) (nval b)).
Proof. exact nadd_t. Qed.
Print Assumptions C06_add.

Theorem C06_mul : forall a b, wfn a -> wfn b ->
  wfn (nmul a b) /\ oq_eq (nval (nmul a b)) (lift2 Qmult (nval a) (nval b)).
Proof. exact nmul_t. Qed.
Print Assumptions C06_mul.

Theorem C06_neg : forall a, wfn a ->
  wfn (nneg a) /\ oq_eq (nval (nneg a)) (option_map Qopp (nval a)) /\ nminus a = nneg a.
Proof. exact nneg_t. Qed.
Print Assumptions C06_neg.

(* reciprocal; of zero: NaN; of NaN: NaN *)
Theorem C06_flip : forall a, wfn a ->
  wfn (nflip a) /\
  oq_eq (nval (nflip a)) (match nval a with Some q => if Qeq_bool q 0 then None else Some (/ q)%Q | None => None end).
Proof. exact nflip_t. Qed.
Print Assumptions C06_flip.

Theorem C06_floor : forall a q, wfn a -> nval a = Some q -> (0 <= q)%Q -> wf (floor a) /\ bval (floor a) = Qfloor q.
Proof. exact floor_t. Qed.
Print Assumptions C06_floor.

Theorem C06_is_pos : forall a, wfn a -> (is_pos a = true <-> exists q, nval a = Some q /\ (0 <= q)%Q).
Proof. exact is_pos_t. Qed.
Print Assumptions C06_is_pos.

(* canonical form: structural equality coincides with numeric equality *)
Theorem C06_canonical_unique : forall a b q q', wfn a -> wfn b -> nval a = Some q -> nval b = Some q' -> (q == q')%Q -> a = b.
Proof. exact wfn_unique_t. Qed.
Print Assumptions C06_canonical_unique.

Theorem C06_struct_eq : forall a b q q', wfn a -> wfn b -> nval a = Some q -> nval b = Some q' ->
  (neq a b = true <-> (q == q')%Q).
Proof. exact neq_t. Qed.
Print Assumptions C06_struct_eq.

(* construction: reduce any integer pair (not both zero); covers Num::new / from_big_num *)
Theorem C06_reduce : forall u d, wf u -> wf d -> (bval u <> 0 \/ bval d <> 0) ->
  wfn (optimize (mknum u d)) /\ oq_eq (nval (optimize (mknum u d))) (frac (bval u) (bval d)).
Proof. exact optimize_t. Qed.
Print Assumptions C06_reduce.

(* Num::new(up: isize, down: usize) with the `down as isize` cast written into the model: canonical for every pair of
   machine integers, the value up/down exactly for denominators below 2^63 *)
Theorem C06_new : forall u d, isize_range u -> 0 <= d < 2 ^ 63 -> (u <> 0 \/ d <> 0) ->
  wfn (nnew u d) /\ oq_eq (nval (nnew u d)) (frac u d).
Proof. exact nnew_exact. Qed.
Print Assumptions C06_new.
Theorem C06_new_any : forall u d, isize_range u -> usize_range d -> (u <> 0 \/ d <> 0) ->
  wfn (nnew u d) /\ oq_eq (nval (nnew u d)) (frac u (wrap_isize d)).
Proof. exact nnew_spec. Qed.
Print Assumptions C06_new_any.
(* latent, outside the operations the property names: from 2^63 on the constructor never returns up/down *)
Theorem C06_new_wrapped_latent : forall u d, isize_range u -> 2 ^ 63 <= d < 2 ^ 64 -> u <> 0 ->
  ~ oq_eq (nval (nnew u d)) (frac u d).
Proof. exact nnew_wrapped. Qed.
Print Assumptions C06_new_wrapped_latent.

Theorem C06_from_num : forall n, Z.abs n < 2 ^ 127 -> wfn (from_num n) /\ nval (from_num n) = Some (inject_Z n).
Proof. exact from_num_t. Qed.
Print Assumptions C06_from_num.

(* printed form: integers without denominator, p/q otherwise, the fixed text for NaN *)
Theorem C06_display : forall n, wfn n ->
  num_display n = if is_nan n then NAN_TEXT
                  else if (bval (down n) =? 1) then big_display (up n)
                  else big_display (up n) ++ [CH_SLASH] ++ big_display (down n).
Proof. exact num_display_t. Qed.
Print Assumptions C06_display.

(* NaN absorbing, independent of well-formedness *)
Theorem C06_nan_absorbing_add : forall a b, is_nan a = true \/ is_nan b = true -> nadd a b = nan.
Proof. exact nadd_absorbs. Qed.
Print Assumptions C06_nan_absorbing_add.
Theorem C06_nan_absorbing_mul : forall a b, is_nan a = true \/ is_nan b = true -> nmul a b = nan.
Proof. exact nmul_absorbs. Qed.
Print Assumptions C06_nan_absorbing_mul.
Theorem C06_nan_neg : forall a, is_nan a = true -> is_nan (nneg a) = true.
Proof. exact nneg_nan. Qed.
Print Assumptions C06_nan_neg.
Theorem C06_nan_flip : forall a, is_nan a = true -> nflip a = a.
Proof. exact nflip_nan. Qed.
Print Assumptions C06_nan_flip.
Theorem C06_nan_text : forall a, is_nan a = true -> num_display a = NAN_TEXT.
Proof. exact nan_display. Qed.
Print Assumptions C06_nan_text.
Theorem C06_is_nan : forall a, wfn a -> (is_nan a = true <-> nval a = None).
Proof. exact is_nan_t. Qed.
Print Assumptions C06_is_nan.

(* the pinned tree (before fix 94453d1) broke the canonical form: -1/2 reduced by a negative gcd *)
Theorem C06_optimize_pre_fix_refuted :
  exists u d, wfb u = true /\ wfb d = true /\ bval d <> 0 /\ bpos (down (optimize_pre_fix (mknum u d))) = false.
Proof. exists (mkbig false [2%N]), (mkbig true [4%N]). vm_compute. repeat split; try reflexivity; discriminate. Qed.
Print Assumptions C06_optimize_pre_fix_refuted.

Example C06_examples :
  wfnb (nadd (nnew (-1) 2) (nnew 1 3)) = true /\ num_display (nadd (nnew (-1) 2) (nnew 1 3)) = [45; 49; 47; 54]%N /\
  wfnb (nflip (nnew (-6) 4)) = true /\ num_display (nflip (nnew (-6) 4)) = [45; 50; 47; 51]%N /\
  is_nan (nflip (nnew 0 5)) = true.
Proof. vm_compute. repeat split; reflexivity. Qed.
Print Assumptions C06_examples.
