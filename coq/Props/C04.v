(* C04 — parsing is total and yields exactly the commands the grammar defines.  Property theorems only.
   L1: coq/Model/Parse.v (the three-state machine with its two tree cursors as zippers and the pre-pass).
   L2: coq/Spec/Grammar.v (concrete syntax trees [cst], [flatten] to text, the context condition [valid],
   the meaning [abstract]: kind, syllables, dots — ellipsis characters count three, dots after the area
   began count nothing —, the area tree [area_of] — `?` loosest, `!` next, right-nested, first heart of a
   slot —, location and significant source characters; [decompose] builds a tree for any text).
   Totality of the model is by construction (Gallina functions); the Rust side is covered by catch_unwind in
   the correspondence run. *)
From Coq Require Import List NArith Bool.
Import ListNotations.
From HV Require Import Model.Chars Model.Parse Spec.Grammar Proofs.ParseSpec Proofs.ParseAll Proofs.ParseArea.
Open Scope N_scope.

(* every Unicode text is in the grammar ... *)
Theorem C04_every_text_has_a_tree : forall text, valid (decompose text) = true /\ flatten (decompose text) = text.
Proof. intros text. split; [apply decompose_valid_t | apply decompose_flatten_t]. Qed.
Print Assumptions C04_every_text_has_a_tree.

(* ... the parser returns the meaning of any valid way of reading the text ... *)
Theorem C04_parse_render : forall t, valid t = true -> parse (flatten t) = abstract t.
Proof. exact parse_render_t. Qed.
Print Assumptions C04_parse_render.

(* ... hence exactly the commands the grammar defines, for every text *)
Theorem C04_exactly_the_grammar : forall text cmds,
  parse text = cmds <-> exists t, valid t = true /\ flatten t = text /\ abstract t = cmds.
Proof. exact parse_iff_grammar. Qed.
Print Assumptions C04_exactly_the_grammar.

(* area trees: always of the grammar's shape, with node types in range *)
Theorem C04_area_shape : forall text u, In u (parse text) -> exists q : gq, ar u = gqA q.
Proof. exact parse_area_shape_t. Qed.
Print Assumptions C04_area_shape.
Theorem C04_area_well_typed : forall text u, In u (parse text) -> well_typed (ar u).
Proof. exact parse_area_well_typed. Qed.
Print Assumptions C04_area_well_typed.

(* the pre-pass over indices is "a terminator of the class occurs in the strict suffix" *)
Theorem C04_prepass_is_lookahead : forall bug l, run bug (max_pos l 0 (0, 0, 0)) l 0 pst0 = run_s bug l 0 pst0.
Proof. exact run_suffix_t. Qed.
Print Assumptions C04_prepass_is_lookahead.

(* the pinned tree (before the D4 fix) attached area characters written before the first command to it *)
Theorem C04_prefix_pre_fix_refuted : exists t, valid t = true /\ parse_pre_fix (flatten t) <> abstract t.
Proof. exact parse_prefix_refuted_t. Qed.
Print Assumptions C04_prefix_pre_fix_refuted.

Example C04_examples :
  let text := [63; 120; 54616; 54805; 46; 63; 9829; 63; 55120; 10; 54784; 50633; 8230; 9825; 46; 33; 63] in
  map (fun u => (ty u, hc u, dc u, loc u, area_debug (ar u))) (parse text)
  = [(0, 1, 1, (1, 3), [63; 95; 63; 9829; 95]); (0, 2, 3, (2, 0), [63; 33; 9825; 95; 95])]
  /\ valid (decompose text) = true.
Proof. vm_compute. split; reflexivity. Qed.
Print Assumptions C04_examples.
