(* Extraction of the executable models for the correspondence check.
   Directives: ExtrOcamlBasic only (bool, option, unit, list, prod, sumbool, sumor; andb/orb inlined).
   positive/N/Z/nat stay the extracted inductive types. *)
From Coq Require Import List NArith ZArith Bool.
From Coq Require Extraction.
From Coq Require Import ExtrOcamlBasic.
From HV Require Import Model.Big Model.Rat Model.NumText Model.Chars Model.Parse Spec.Grammar Model.Exec Spec.Lang Model.Opt Model.Repl Model.Debug Model.Utf8 Model.Cli Model.Compile Model.Listing.
Extraction "model.ml"
  Big.from_vec Big.bminus Big.bneg Big.badd Big.bsub Big.bmul Big.bdiv Big.brem Big.bgcd Big.beq Big.bcmp
  Big.lval Big.bone Big.bnew Big.new_pre_fix Big.is_zero Big.to_int Big.wfb Big.bval
  Rat.nan Rat.from_num Rat.from_big_num Rat.nnew Rat.nminus Rat.nneg Rat.nflip Rat.nadd Rat.nmul Rat.floor
  Rat.neq Rat.ncmp Rat.ncmp_pre_fix Rat.is_nan Rat.is_pos Rat.optimize_pre_fix Rat.wfnb
  NumText.to_string_base NumText.from_string_base NumText.big_display NumText.num_display
  NumText.num_from_string
  Parse.parse Parse.parse_pre_fix Parse.area_debug Parse.area_display
  Grammar.decompose Grammar.valid Grammar.flatten Grammar.abstract
  Exec.xcode_of_ucode Exec.state0 Exec.execute_one Exec.run_pre Exec.run_inc Exec.final_state
  Lang.sstep Lang.srun Lang.lstate0 Lang.scmd_of_ucode Lang.value_text
  Opt.optimize_prog Opt.run_level Opt.all_fixed Opt.pinned
  Repl.repl_run
  Debug.debug_run
  Cli.run_cli Cli.check_cli Utf8.encode Utf8.decode
  Listing.check_listing Listing.listing_text
  Compile.compile_prog Compile.ir_run Compile.dispatch_tree Compile.tree_select.
