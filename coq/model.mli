
val xorb : bool -> bool -> bool

val negb : bool -> bool

type nat =
| O
| S of nat

val option_map : ('a1 -> 'a2) -> 'a1 option -> 'a2 option

type ('a, 'b) sum =
| Inl of 'a
| Inr of 'b

val fst : ('a1 * 'a2) -> 'a1

val snd : ('a1 * 'a2) -> 'a2

val length : 'a1 list -> nat

val app : 'a1 list -> 'a1 list -> 'a1 list

type comparison =
| Eq
| Lt
| Gt

val compOpp : comparison -> comparison

val add : nat -> nat -> nat

val mul : nat -> nat -> nat

val eqb : bool -> bool -> bool

module Nat :
 sig
  val eqb : nat -> nat -> bool

  val leb : nat -> nat -> bool

  val ltb : nat -> nat -> bool

  val max : nat -> nat -> nat
 end

val hd : 'a1 -> 'a1 list -> 'a1

val tl : 'a1 list -> 'a1 list

val nth : nat -> 'a1 list -> 'a1 -> 'a1

val nth_error : 'a1 list -> nat -> 'a1 option

val last : 'a1 list -> 'a1 -> 'a1

val removelast : 'a1 list -> 'a1 list

val rev : 'a1 list -> 'a1 list

val list_eq_dec : ('a1 -> 'a1 -> bool) -> 'a1 list -> 'a1 list -> bool

val map : ('a1 -> 'a2) -> 'a1 list -> 'a2 list

val flat_map : ('a1 -> 'a2 list) -> 'a1 list -> 'a2 list

val fold_left : ('a1 -> 'a2 -> 'a1) -> 'a2 list -> 'a1 -> 'a1

val fold_right : ('a2 -> 'a1 -> 'a1) -> 'a1 -> 'a2 list -> 'a1

val existsb : ('a1 -> bool) -> 'a1 list -> bool

val forallb : ('a1 -> bool) -> 'a1 list -> bool

val filter : ('a1 -> bool) -> 'a1 list -> 'a1 list

val firstn : nat -> 'a1 list -> 'a1 list

val skipn : nat -> 'a1 list -> 'a1 list

val seq : nat -> nat -> nat list

val repeat : 'a1 -> nat -> 'a1 list

type positive =
| XI of positive
| XO of positive
| XH

type n =
| N0
| Npos of positive

type z =
| Z0
| Zpos of positive
| Zneg of positive

module Pos :
 sig
  type mask =
  | IsNul
  | IsPos of positive
  | IsNeg
 end

module Coq_Pos :
 sig
  val succ : positive -> positive

  val add : positive -> positive -> positive

  val add_carry : positive -> positive -> positive

  val pred_double : positive -> positive

  type mask = Pos.mask =
  | IsNul
  | IsPos of positive
  | IsNeg

  val succ_double_mask : mask -> mask

  val double_mask : mask -> mask

  val double_pred_mask : positive -> mask

  val sub_mask : positive -> positive -> mask

  val sub_mask_carry : positive -> positive -> mask

  val sub : positive -> positive -> positive

  val mul : positive -> positive -> positive

  val iter : ('a1 -> 'a1) -> 'a1 -> positive -> 'a1

  val pow : positive -> positive -> positive

  val size_nat : positive -> nat

  val size : positive -> positive

  val compare_cont : comparison -> positive -> positive -> comparison

  val compare : positive -> positive -> comparison

  val eqb : positive -> positive -> bool

  val gcdn : nat -> positive -> positive -> positive

  val gcd : positive -> positive -> positive

  val ggcdn : nat -> positive -> positive -> positive * (positive * positive)

  val ggcd : positive -> positive -> positive * (positive * positive)

  val iter_op : ('a1 -> 'a1 -> 'a1) -> positive -> 'a1 -> 'a1

  val to_nat : positive -> nat

  val of_succ_nat : nat -> positive

  val eq_dec : positive -> positive -> bool
 end

module N :
 sig
  val succ_double : n -> n

  val double : n -> n

  val add : n -> n -> n

  val sub : n -> n -> n

  val mul : n -> n -> n

  val compare : n -> n -> comparison

  val eqb : n -> n -> bool

  val leb : n -> n -> bool

  val ltb : n -> n -> bool

  val max : n -> n -> n

  val pow : n -> n -> n

  val log2 : n -> n

  val pos_div_eucl : positive -> n -> n * n

  val div_eucl : n -> n -> n * n

  val div : n -> n -> n

  val modulo : n -> n -> n

  val to_nat : n -> nat

  val of_nat : nat -> n

  val iter : n -> ('a1 -> 'a1) -> 'a1 -> 'a1

  val eq_dec : n -> n -> bool
 end

module Z :
 sig
  val double : z -> z

  val succ_double : z -> z

  val pred_double : z -> z

  val pos_sub : positive -> positive -> z

  val add : z -> z -> z

  val opp : z -> z

  val sub : z -> z -> z

  val mul : z -> z -> z

  val pow_pos : z -> positive -> z

  val pow : z -> z -> z

  val compare : z -> z -> comparison

  val sgn : z -> z

  val leb : z -> z -> bool

  val ltb : z -> z -> bool

  val eqb : z -> z -> bool

  val abs : z -> z

  val abs_N : z -> n

  val to_N : z -> n

  val of_N : n -> z

  val to_pos : z -> positive

  val pos_div_eucl : positive -> z -> z * z

  val div_eucl : z -> z -> z * z

  val div : z -> z -> z

  val gcd : z -> z -> z

  val ggcd : z -> z -> z * (z * z)
 end

val zeq_bool : z -> z -> bool

type q = { qnum : z; qden : positive }

val inject_Z : z -> q

val qcompare : q -> q -> comparison

val qeq_bool : q -> q -> bool

val qle_bool : q -> q -> bool

val qplus : q -> q -> q

val qmult : q -> q -> q

val qopp : q -> q

val qinv : q -> q

val qred : q -> q

val b : n

type big = { bpos : bool; limbs : n list }

val lval : n list -> n

val bval : big -> z

val strip : n list -> n list

val shrink : n list -> n list

val normalb : n list -> bool

val wfb : big -> bool

val carry1 : n list -> n -> n list

val add_carry0 : n list -> n list -> n -> n list

val add_core : n list -> n list -> n list

val lt_be : n list -> n list -> bool

val less_core : n list -> n list -> bool

val sub_borrow : n list -> n list -> n -> n list

val sub_core : n list -> n list -> n list * bool

val row : n -> n list -> n list -> n list

val mult_rows : n list -> n list -> n list -> n list

val mult_acc : n list -> n list -> n list

val mult_core : n list -> n list -> n list

val upd : n list -> nat -> (n -> n) -> n list

val div_step : n list -> n list -> n list -> (nat * nat) -> n list

val bits_desc : nat list

val div_order : nat -> (nat * nat) list

val div_core : n list -> n list -> n list

val is_zero : big -> bool

val from_vec : n list -> big

val bminus : big -> big

val bneg : big -> big

val shrink_big : big -> big

val bzero : big

val bone : big

val flip_if : bool -> big -> big

val badd : big -> big -> big

val bsub : big -> big -> big

val bmul : big -> big -> big

val bdiv : big -> big -> big

val brem : big -> big -> big

val beq : big -> big -> bool

val bcmp : big -> big -> comparison

val gcd_fuel : nat -> big -> big -> big option

val gcd_bound : big -> nat

val bgcd : big -> big -> big option

val to_limbs : nat -> n -> n list

val bnew : z -> big

val new_pre_fix : z -> big

val to_int : big -> n

type num = { up : big; down : big }

val nan : num

val nzero : num

val n_one : num

val from_num : z -> num

val is_nan : num -> bool

val is_pos : num -> bool

val gcd_total : big -> big -> big

val optimize : num -> num

val optimize_pre_fix : num -> num

val from_big_num : big -> big -> num

val wrap_isize : z -> z

val nnew : z -> z -> num

val nminus : num -> num

val nneg : num -> num

val nflip : num -> num

val nadd : num -> num -> num

val nmul : num -> num -> num

val floor : num -> big

val neq : num -> num -> bool

val ncmp : num -> num -> comparison option

val ncmp_pre_fix : num -> num -> comparison option

val wfnb : num -> bool

val nAN_TEXT : n list

val cH_MINUS : n

val cH_SLASH : n

val digit_char : n -> n

type tsr =
| TSBase
| TSFuel
| TSOk of n list

val digits_fuel : nat -> big -> big -> n list option

val ts_bound : big -> nat

val to_string_base : big -> n -> tsr

val big_display : big -> n list

type fsr =
| FSBase
| FSParse
| FSOk of big

val digit_val : n -> n option

val horner : big -> n list -> big -> big option

val from_string_base : n list -> n -> fsr

val num_display : num -> n list

val split_slash : n list -> n list -> n list list

val num_from_string : n list -> num option

val index_from : n -> n list -> n -> n option

val index_of : n -> n list -> n option

val sINGLE : n list

val sTART : n list

val hEARTS : n list

val cH_Q : n

val cH_BANG : n

val cH_US : n

val cH_LB : n

val cH_RB : n

val cH_NL : n

val is_dot : n -> bool

val dot_val : n -> n

val is_hangul : n -> bool

val is_ws : n -> bool

val end_class : n -> n option

val end_kind : n -> n option

val class_of_kind : n -> n

val area_char : n -> n

type area =
| Nil
| Val of n * area * area

val leafA : n -> area

type slot = n option

val slotA : slot -> area

type bangz = { closed : slot list; curslot : slot }

val bang_tree : slot list -> slot -> area

val bangA : bangz -> area

val bang0 : bangz

val qu_tree : area list -> area -> area

type ucode = { ty : n; hc : n; dc : n; loc : (n * n); ar : area; raw : n list }

type pst = { res : ucode list; type_ : n; hangul : n; dots : n;
             cloc : (n * n); st : n; bz : bangz; qz : area list; line : 
             n; line_start : n; rawc : n list }

val pst0 : pst

val finish : pst -> area

val flush : pst -> ucode list

val max_pos : n list -> n -> ((n * n) * n) -> (n * n) * n

val mp_get : ((n * n) * n) -> n -> n

val step : bool -> ((n * n) * n) -> pst -> n -> n -> pst

val run : bool -> ((n * n) * n) -> n list -> n -> pst -> pst

val parse_gen : bool -> n list -> ucode list

val parse : n list -> ucode list

val parse_pre_fix : n list -> ucode list

val area_debug : area -> n list

val area_display : area -> n list

val later_end : n -> n list -> bool

val starts : n -> n list -> bool

val is_heart : n -> bool

val is_areach : n -> bool

val split_on : n -> n list -> n list -> n list list

val slot_of : n list -> slot

val bang_of : n list -> area

val area_of : n list -> area

type head =
| HSingle of n
| HMulti of n * n list * n

type ccmd = { chead : head; cdotitems : n list; careaitems : n list }

type cst = { cprefix : n list; ccmds : ccmd list }

val flat_head : head -> n list

val flat_cmd : ccmd -> n list

val flat_cmds : ccmd list -> n list

val flatten : cst -> n list

val all_ctx : (n -> n list -> bool) -> n list -> n list -> bool

val valid_head : head -> bool

val valid_cmd : ccmd -> n list -> bool

val valid_cmds : ccmd list -> bool

val valid : cst -> bool

val head_kind : head -> n

val head_syl : head -> n

val head_raw : head -> n list

val dots_of : n list -> n

val advance : n list -> (n * n) -> n * n

val abstract_cmd : ccmd -> (n * n) -> ucode

val abstract_cmds : ccmd list -> (n * n) -> ucode list

val abstract : cst -> ucode list

type dmode =
| DPrefix
| DInner of n
| DDots
| DArea

type dst = { dpre : n list; ddone : ccmd list; dmode_ : dmode; dstart : 
             n; dinner : n list; dhead : head; ddots : n list; darea : 
             n list }

val dst0 : dst

val dclose : dst -> ccmd list

val dstep : dst -> n -> n list -> dst

val dscan : n list -> dst -> dst

val decompose : n list -> cst

type xcode = { xty : n; xhc : n; xdc : n; xac : n; xar : area }

val xcode_of_ucode : ucode -> xcode

type errkind =
| EEnc of n
| EIo

type skind =
| SUnopt
| SOpt of n

type state = { skind_ : skind; stacks : (n * num list) list; cur : n;
               points : (n * n) list; latest : n option;
               inp : n list option list; outb : n list; errb : n list }

val state0 : skind -> n list option list -> state

type 'a res0 =
| ROk of 'a * state
| RExit of n * state
| RErr of errkind * state

type 'a m = state -> 'a res0

val ret : 'a1 -> 'a1 m

val bind : 'a1 m -> ('a1 -> 'a2 m) -> 'a2 m

val alist_get : (n * 'a1) list -> n -> 'a1 option

val alist_set : (n * 'a1) list -> n -> 'a1 -> (n * 'a1) list

val get_stack : state -> n -> num list

val set_stack : state -> n -> num list -> state

val in_range : state -> n -> bool

val push_stack : n -> num -> unit m

val pop_stack : n -> num m

val is_scalar : n -> bool

val num_to_unicode : num -> (n, n) sum

val write_out : bool -> n list -> unit m

val fail : errkind -> 'a1 m

val exit_ : n -> 'a1 m

val push_wrap : n -> num -> unit m

val read_line : n list m

val push_all : n -> n list -> unit m

val pop_wrap : n -> num m

val calc : area -> n -> num m -> n m

val iterM : n -> ('a1 -> 'a1 m) -> 'a1 -> 'a1 m

val set_cur : n -> unit m

val get_cur : n m

val body : xcode -> unit m

val get_point : n -> n option m

val set_point : n -> n -> unit m

val set_latest : n -> unit m

val get_latest : n option m

val execute_one : xcode -> n -> n m

type final =
| FDone of state
| FExit of n * state
| FErr of errkind * state
| FFuel of state * n
| FPanic of state

val run_pre : nat -> xcode list -> state -> n -> final

val exec_loop : nat -> xcode list -> state -> n -> n -> final * nat

val run_inc : nat -> xcode list -> xcode list -> state -> final

val final_state : final -> state

val qfloor : q -> z

type value =
| VNaN
| VRat of q

val vadd : value -> value -> value

val vmul : value -> value -> value

val vneg : value -> value

val vrecip : value -> value

val vnat : n -> value

val dec_digits : nat -> n -> n list -> n list

val dec_N : n -> n list

val dec_Z : z -> n list

val nAN_TEXT_SPEC : n list

val value_text : value -> n list

type serr =
| SEnc of n
| SIo

type lstate = { stk : (n * value list) list; sel : n; labels : (n * n) list;
                lastj : n option; input : n list option list; out : n list;
                err : n list }

val lstate0 : n list option list -> lstate

val lookup : (n * 'a1) list -> n -> 'a1 option

val update : (n * 'a1) list -> n -> 'a1 -> (n * 'a1) list

val sget : lstate -> n -> value list

val sset : lstate -> n -> value list -> lstate

type 'a sres =
| SOk of 'a * lstate
| SExit of n * lstate
| SErr of serr * lstate

val scalar : n -> bool

val spush : n -> value -> lstate -> unit sres

val spop : n -> lstate -> value sres

val spops : nat -> n -> lstate -> value list sres

val spushes : n -> value list -> lstate -> unit sres

val scommand : n -> n -> n -> lstate -> unit sres

val vlt : value -> n -> bool

val veq : value -> n -> bool

val sarea : area -> n -> lstate -> n sres

val sstep : n -> n -> n -> n -> area -> n -> lstate -> n sres

type scmd = { sk : n; sn : n; sd : n; scount : n; sa : area }

val scmd_of_ucode : ucode -> scmd

type sfinal =
| SDone of lstate
| SExited of n * lstate
| SFailed of serr * lstate
| SRunning of lstate * n

val srun : nat -> scmd list -> lstate -> n -> sfinal

type fixes = { fx5 : bool; fx6 : bool; fx7 : bool }

val all_fixed : fixes

val pinned : fixes

val chk_scan : fixes -> ucode list -> n -> n list

val insert_sorted : n -> n list -> n list

val sort_N : n list -> n list

val assign : n list -> (n * n) list -> n -> (n * n) list * n

val renum_map : fixes -> ucode list -> (n * n) list * n

val renum : (n * n) list -> n -> n -> n

val opt_code : (n * n) list -> n -> ucode -> xcode

val bAIL : n

val guard : n -> unit m

val gpop : n -> num m

val obody : fixes -> xcode -> unit m

val oexecute_one : fixes -> xcode -> n -> (n * bool) m

type ores =
| ODone of state
| OBail of state
| OErr of errkind * state
| OFuel
| OPanic

val opt_loop : nat -> fixes -> xcode list -> state -> n -> n -> n -> ores

val opt_fuel : xcode list -> nat

type opt_result = { ostate : state; olog : xcode list; orest : xcode list }

type optimized =
| OptOk of opt_result
| OptErr of errkind
| OptStuck

val with_io : state -> state -> state

val preexec : fixes -> state -> xcode list -> xcode list -> optimized

val optimize_prog :
  fixes -> ucode list -> n -> n list option list -> optimized

val run_level : fixes -> nat -> ucode list -> n -> n list option list -> final

val trim_left : n list -> n list

val trim : n list -> n list

val kW_CLEAR : n list

val kW_HELP : n list

val kW_EXIT : n list

val leqb : n list -> n list -> bool

type revent =
| EvNothing
| EvHelp
| EvFlush of n list * n list

type rend =
| RAlive
| RQuit
| RProgExit of n
| RFail of errkind
| RFuelOut
| RPanicked

val with_fresh_io : state -> state

val flush_of : state -> revent

val repl :
  bool -> nat -> n list list -> xcode list -> state -> revent list * rend

val repl_run : bool -> nat -> n list list -> revent list * rend

type ierr =
| IEmpty
| IInvalid
| IOverflow

val uSIZE_MAX : n

val digits_acc : n list -> n -> (n option, ierr) sum

val parse_usize : n list -> (n, ierr) sum

val split_sp : n list -> n list -> n list list

type devent =
| DvPrompt
| DvShowCode of n list
| DvFlush of n list * n list
| DvMovedBack
| DvCantGoBack
| DvState of n
| DvListBreaks
| DvIntErr of ierr
| DvRange
| DvSet of n
| DvUnset of n
| DvHelp
| DvNotFound of n list

type dend =
| DEof
| DQuit
| DFinished
| DProgExit of n
| DFail of errkind
| DPanic
| DFuelOut

type dstate = { hist : (state * n) list; brk : n list; running : bool;
                dio : state }

val w_next : n list

val w_previous : n list

val w_run : n list

val w_state : n list

val w_break : n list

val w_help : n list

val w_exit : n list

val is_word : n list -> n list -> n -> bool

val ins_asc : n -> n list -> n list

val sort_asc : n list -> n list

val mem_N : n -> n list -> bool

val remove_N : n -> n list -> n list

val dstep0 : xcode list -> dstate -> ((state * n) * state, final) sum

val flushed : state -> devent

val clear_io : state -> state

val dtrans :
  bool -> bool -> xcode list -> n list list -> dstate -> devent list * (dend,
  n list list * dstate) sum

val dloop :
  bool -> bool -> nat -> xcode list -> n list list -> dstate -> devent
  list * dend

val debug_run :
  bool -> bool -> nat -> xcode list -> n list list -> devent list * dend

val is_scalar_value : n -> bool

val encode1 : n -> n list

val encode : n list -> n list

val is_cont : n -> bool

val decode1 : n list -> (n * n list) option

val decode_fuel : nat -> n list -> n list option

val decode : n list -> n list option

val split_nl : n list -> n list -> n list list

val stdin_lines : n list -> n list option list

type file_in =
| FUnreadable
| FBytes of bool * n list

type diag =
| DgFile
| DgExt
| DgUtf8File
| DgUtf8Stdin
| DgEnc of n

type cli_out =
| CExit of n * n list * n list
| CDiag of diag * n list * n list
| CPanic
| CRunning

val run_cli : n -> file_in -> n list -> nat -> cli_out

val check_cli : file_in -> cli_out

val has_area : xcode -> bool

val blk : xcode list -> xcode list -> xcode list list

val blocks : xcode list -> xcode list list

val block_of : xcode list -> bool -> nat -> n -> n

val block_index : xcode list -> n -> n

type dtree =
| DLeaf of n
| DNode of n * dtree * dtree

val build_tree : nat -> n -> n -> dtree

val dispatch_tree : n -> dtree

val tree_select : dtree -> n -> n

type irprog = { ir_blocks : xcode list list; ir_kind : skind;
                ir_stacks : (n * n list list) list; ir_cur : n;
                ir_last : n option; ir_points : (n * n) list; ir_start : 
                n; ir_out : n list; ir_err : n list }

val ser_stack : num list -> n list list

val nonempty_stacks : state -> (n * num list) list

val build_ir : bool -> n -> state -> xcode list -> xcode list -> irprog

val compile_prog : fixes -> bool -> ucode list -> n -> irprog option

val deser_stack : n list list -> num list option

val deser_all : (n * n list list) list -> (n * num list) list option

val run_block : xcode list -> n -> n m

type irfinal =
| IDone of state
| IExit of n * state
| IAbort of n * state
| IIoErr of state
| IFuel of state
| IBadState

val ir_loop : nat -> irprog -> state -> n -> irfinal

val ir_run : nat -> irprog -> n list option list -> irfinal

val dlen : n -> n

val usub : n -> n -> n option

val spaces : n -> n list

val idx_width : (n * ucode) list -> n

val loc_width : (n * ucode) list -> n

val entry_tail : bool -> ucode -> n list option

val listing_row : bool -> n list -> n -> n -> (n * ucode) -> n list option

val listing_rows :
  bool -> n list -> n -> n -> (n * ucode) list -> n list option

val listing_text : bool -> n list -> (n * ucode) list -> n list option

val enumerate_from : n -> 'a1 list -> (n * 'a1) list

val check_listing : n list -> n list -> n list option
