
val xorb : bool -> bool -> bool

val negb : bool -> bool

type nat =
| O
| S of nat

val fst : ('a1 * 'a2) -> 'a1

val snd : ('a1 * 'a2) -> 'a2

val length : 'a1 list -> nat

val app : 'a1 list -> 'a1 list -> 'a1 list

type comparison =
| Eq
| Lt
| Gt

val compOpp : comparison -> comparison

val add : nat -> nat -> nat

val mul : nat -> nat -> nat

val eqb : bool -> bool -> bool

module Nat :
 sig
  val eqb : nat -> nat -> bool

  val leb : nat -> nat -> bool

  val ltb : nat -> nat -> bool

  val max : nat -> nat -> nat
 end

val hd : 'a1 -> 'a1 list -> 'a1

val nth : nat -> 'a1 list -> 'a1 -> 'a1

val last : 'a1 list -> 'a1 -> 'a1

val removelast : 'a1 list -> 'a1 list

val rev : 'a1 list -> 'a1 list

val list_eq_dec : ('a1 -> 'a1 -> bool) -> 'a1 list -> 'a1 list -> bool

val map : ('a1 -> 'a2) -> 'a1 list -> 'a2 list

val flat_map : ('a1 -> 'a2 list) -> 'a1 list -> 'a2 list

val fold_left : ('a1 -> 'a2 -> 'a1) -> 'a2 list -> 'a1 -> 'a1

val fold_right : ('a2 -> 'a1 -> 'a1) -> 'a1 -> 'a2 list -> 'a1

val existsb : ('a1 -> bool) -> 'a1 list -> bool

val forallb : ('a1 -> bool) -> 'a1 list -> bool

val filter : ('a1 -> bool) -> 'a1 list -> 'a1 list

val firstn : nat -> 'a1 list -> 'a1 list

val skipn : nat -> 'a1 list -> 'a1 list

val seq : nat -> nat -> nat list

val repeat : 'a1 -> nat -> 'a1 list

type positive =
| XI of positive
| XO of positive
| XH

type n =
| N0
| Npos of positive

type z =
| Z0
| Zpos of positive
| Zneg of positive

module Pos :
 sig
  type mask =
  | IsNul
  | IsPos of positive
  | IsNeg
 end

module Coq_Pos :
 sig
  val succ : positive -> positive

  val add : positive -> positive -> positive

  val add_carry : positive -> positive -> positive

  val pred_double : positive -> positive

  type mask = Pos.mask =
  | IsNul
  | IsPos of positive
  | IsNeg

  val succ_double_mask : mask -> mask

  val double_mask : mask -> mask

  val double_pred_mask : positive -> mask

  val sub_mask : positive -> positive -> mask

  val sub_mask_carry : positive -> positive -> mask

  val sub : positive -> positive -> positive

  val mul : positive -> positive -> positive

  val iter : ('a1 -> 'a1) -> 'a1 -> positive -> 'a1

  val pow : positive -> positive -> positive

  val size_nat : positive -> nat

  val compare_cont : comparison -> positive -> positive -> comparison

  val compare : positive -> positive -> comparison

  val eqb : positive -> positive -> bool

  val gcdn : nat -> positive -> positive -> positive

  val gcd : positive -> positive -> positive

  val iter_op : ('a1 -> 'a1 -> 'a1) -> positive -> 'a1 -> 'a1

  val to_nat : positive -> nat

  val of_succ_nat : nat -> positive

  val eq_dec : positive -> positive -> bool
 end

module N :
 sig
  val succ_double : n -> n

  val double : n -> n

  val add : n -> n -> n

  val sub : n -> n -> n

  val mul : n -> n -> n

  val compare : n -> n -> comparison

  val eqb : n -> n -> bool

  val leb : n -> n -> bool

  val ltb : n -> n -> bool

  val pow : n -> n -> n

  val pos_div_eucl : positive -> n -> n * n

  val div_eucl : n -> n -> n * n

  val div : n -> n -> n

  val modulo : n -> n -> n

  val to_nat : n -> nat

  val of_nat : nat -> n

  val eq_dec : n -> n -> bool
 end

module Z :
 sig
  val opp : z -> z

  val compare : z -> z -> comparison

  val leb : z -> z -> bool

  val eqb : z -> z -> bool

  val abs : z -> z

  val abs_N : z -> n

  val of_N : n -> z

  val gcd : z -> z -> z
 end

val b : n

type big = { bpos : bool; limbs : n list }

val lval : n list -> n

val bval : big -> z

val strip : n list -> n list

val shrink : n list -> n list

val normalb : n list -> bool

val wfb : big -> bool

val carry1 : n list -> n -> n list

val add_carry0 : n list -> n list -> n -> n list

val add_core : n list -> n list -> n list

val lt_be : n list -> n list -> bool

val less_core : n list -> n list -> bool

val sub_borrow : n list -> n list -> n -> n list

val sub_core : n list -> n list -> n list * bool

val row : n -> n list -> n list -> n list

val mult_rows : n list -> n list -> n list -> n list

val mult_acc : n list -> n list -> n list

val mult_core : n list -> n list -> n list

val upd : n list -> nat -> (n -> n) -> n list

val div_step : n list -> n list -> n list -> (nat * nat) -> n list

val bits_desc : nat list

val div_order : nat -> (nat * nat) list

val div_core : n list -> n list -> n list

val is_zero : big -> bool

val from_vec : n list -> big

val bminus : big -> big

val bneg : big -> big

val shrink_big : big -> big

val bzero : big

val bone : big

val flip_if : bool -> big -> big

val badd : big -> big -> big

val bsub : big -> big -> big

val bmul : big -> big -> big

val bdiv : big -> big -> big

val brem : big -> big -> big

val beq : big -> big -> bool

val bcmp : big -> big -> comparison

val gcd_fuel : nat -> big -> big -> big option

val gcd_bound : big -> nat

val bgcd : big -> big -> big option

val to_limbs : nat -> n -> n list

val bnew : z -> big

val new_pre_fix : z -> big

val to_int : big -> n

type num = { up : big; down : big }

val nan : num

val from_num : z -> num

val is_nan : num -> bool

val is_pos : num -> bool

val gcd_total : big -> big -> big

val optimize : num -> num

val optimize_pre_fix : num -> num

val from_big_num : big -> big -> num

val nnew : z -> z -> num

val nminus : num -> num

val nneg : num -> num

val nflip : num -> num

val nadd : num -> num -> num

val nmul : num -> num -> num

val floor : num -> big

val neq : num -> num -> bool

val ncmp : num -> num -> comparison option

val ncmp_pre_fix : num -> num -> comparison option

val wfnb : num -> bool

val nAN_TEXT : n list

val cH_MINUS : n

val cH_SLASH : n

val digit_char : n -> n

type tsr =
| TSBase
| TSFuel
| TSOk of n list

val digits_fuel : nat -> big -> big -> n list option

val ts_bound : big -> nat

val to_string_base : big -> n -> tsr

val big_display : big -> n list

type fsr =
| FSBase
| FSParse
| FSOk of big

val digit_val : n -> n option

val horner : big -> n list -> big -> big option

val from_string_base : n list -> n -> fsr

val num_display : num -> n list

val split_slash : n list -> n list -> n list list

val num_from_string : n list -> num option

val index_from : n -> n list -> n -> n option

val index_of : n -> n list -> n option

val sINGLE : n list

val sTART : n list

val hEARTS : n list

val cH_Q : n

val cH_BANG : n

val cH_US : n

val cH_LB : n

val cH_RB : n

val cH_NL : n

val is_dot : n -> bool

val dot_val : n -> n

val is_hangul : n -> bool

val is_ws : n -> bool

val end_class : n -> n option

val end_kind : n -> n option

val class_of_kind : n -> n

val area_char : n -> n

type area =
| Nil
| Val of n * area * area

val leafA : n -> area

type slot = n option

val slotA : slot -> area

type bangz = { closed : slot list; curslot : slot }

val bang_tree : slot list -> slot -> area

val bangA : bangz -> area

val bang0 : bangz

val qu_tree : area list -> area -> area

type ucode = { ty : n; hc : n; dc : n; loc : (n * n); ar : area; raw : n list }

type pst = { res : ucode list; type_ : n; hangul : n; dots : n;
             cloc : (n * n); st : n; bz : bangz; qz : area list; line : 
             n; line_start : n; rawc : n list }

val pst0 : pst

val finish : pst -> area

val flush : pst -> ucode list

val max_pos : n list -> n -> ((n * n) * n) -> (n * n) * n

val mp_get : ((n * n) * n) -> n -> n

val step : bool -> ((n * n) * n) -> pst -> n -> n -> pst

val run : bool -> ((n * n) * n) -> n list -> n -> pst -> pst

val parse_gen : bool -> n list -> ucode list

val parse : n list -> ucode list

val parse_pre_fix : n list -> ucode list

val area_debug : area -> n list

val area_display : area -> n list

val later_end : n -> n list -> bool

val starts : n -> n list -> bool

val is_heart : n -> bool

val is_areach : n -> bool

val split_on : n -> n list -> n list -> n list list

val slot_of : n list -> slot

val bang_of : n list -> area

val area_of : n list -> area

type head =
| HSingle of n
| HMulti of n * n list * n

type ccmd = { chead : head; cdotitems : n list; careaitems : n list }

type cst = { cprefix : n list; ccmds : ccmd list }

val flat_head : head -> n list

val flat_cmd : ccmd -> n list

val flat_cmds : ccmd list -> n list

val flatten : cst -> n list

val all_ctx : (n -> n list -> bool) -> n list -> n list -> bool

val valid_head : head -> bool

val valid_cmd : ccmd -> n list -> bool

val valid_cmds : ccmd list -> bool

val valid : cst -> bool

val head_kind : head -> n

val head_syl : head -> n

val head_raw : head -> n list

val dots_of : n list -> n

val advance : n list -> (n * n) -> n * n

val abstract_cmd : ccmd -> (n * n) -> ucode

val abstract_cmds : ccmd list -> (n * n) -> ucode list

val abstract : cst -> ucode list

type dmode =
| DPrefix
| DInner of n
| DDots
| DArea

type dst = { dpre : n list; ddone : ccmd list; dmode_ : dmode; dstart : 
             n; dinner : n list; dhead : head; ddots : n list; darea : 
             n list }

val dst0 : dst

val dclose : dst -> ccmd list

val dstep : dst -> n -> n list -> dst

val dscan : n list -> dst -> dst

val decompose : n list -> cst
