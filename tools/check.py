#!/usr/bin/env python3
"""Entry point of every check:  python3 tools/check.py --property Cxx --tier quick|thorough [--replay FILE]"""
import argparse
import os
import sys
import traceback

sys.path.insert(0, os.path.dirname(os.path.abspath(__file__)))
from hv import common as C  # noqa: E402


def main():
    ap = argparse.ArgumentParser()
    ap.add_argument("--property", required=True)
    ap.add_argument("--tier", default=os.environ.get("VERIF_TIER", "quick"))
    ap.add_argument("--replay")
    ap.add_argument("--update-pins", action="store_true")
    a = ap.parse_args()
    seed = int(os.environ.get("VERIF_SEED", "20261001"))
    prop = a.property
    if a.update_pins:
        import json
        pins = json.load(open(C.pins_path())) if os.path.exists(C.pins_path()) else {}
        pins[prop] = C.statement_hash("Props/%s.v" % prop)[0]
        json.dump(pins, open(C.pins_path(), "w"), indent=1, sort_keys=True)
        return 0
    try:
        if prop in ("C05", "C06", "C07", "C09"):
            from hv import numchecks
            if a.replay:
                return numchecks.replay(prop, a.replay)
            return numchecks.run(prop, a.tier, seed)
        if prop in ("C04", "C08"):
            from hv import parsechecks
            if a.replay:
                return parsechecks.replay(prop, a.replay)
            return parsechecks.run(prop, a.tier, seed)
        if prop == "C01":
            from hv import execchecks
            if a.replay:
                return execchecks.replay(prop, a.replay)
            return execchecks.run(prop, a.tier, seed)
        if prop == "C02":
            from hv import optchecks
            if a.replay:
                return optchecks.replay(prop, a.replay)
            return optchecks.run(prop, a.tier, seed)
        if prop == "C10":
            from hv import c10checks
            if a.replay:
                return c10checks.replay(prop, a.replay)
            return c10checks.run(prop, a.tier, seed)
        if prop == "C12":
            from hv import replchecks
            if a.replay:
                return replchecks.replay(prop, a.replay)
            return replchecks.run(prop, a.tier, seed)
        if prop == "C11":
            from hv import dbgchecks
            if a.replay:
                return dbgchecks.replay(prop, a.replay)
            return dbgchecks.run(prop, a.tier, seed)
        if prop == "C13":
            from hv import clichecks
            if a.replay:
                return clichecks.replay(prop, a.replay)
            return clichecks.run(prop, a.tier, seed)
        if prop == "C03":
            from hv import compchecks
            if a.replay:
                return compchecks.replay(prop, a.replay)
            return compchecks.run(prop, a.tier, seed)
        if prop == "C14":
            from hv import unichecks
            if a.replay:
                return unichecks.replay(prop, a.replay)
            return unichecks.run(prop, a.tier, seed)
        print("unknown property", prop)
        return 2
    except C.BuildError as e:
        # the tree no longer builds: the property is not shown to hold
        V = C.Verdict(prop, a.tier, seed)
        V.coverage = dict(obligations=1, discharged=0, checker_cmd="tools/check.py", trusted_base=C.TRUSTED_BASE,
                          explanation="build failed")
        V.violation("build:" + prop, "build failed: " + str(e)[:2000], dict(build_log=str(e)[-6000:]), found_input=False)
        return V.finish()
    except Exception:
        # the check could not be completed (e.g. an evaluator answered something no case of the checker expects):
        # the property is not shown to hold on this tree
        tb = traceback.format_exc()
        sys.stderr.write(tb)
        V = C.Verdict(prop, a.tier, seed)
        V.coverage = dict(obligations=1, discharged=0, checker_cmd="tools/check.py", trusted_base=C.TRUSTED_BASE,
                          explanation="check aborted")
        V.violation("aborted:" + prop, "the check of %s could not be completed: %s" % (prop, tb.strip().split("\n")[-1][:300]),
                    dict(traceback=tb[-4000:]), found_input=False)
        return V.finish()


if __name__ == "__main__":
    sys.exit(main())
