#!/usr/bin/env python3
"""Behaviour-preserving changes must leave every check green.

  python3 tools/harmlesstest.py <dir-with-patch.diff-and-meta.json> <id> [--props C05,C06] [--keep]

Applies the patch to /repo (which must be clean), runs the quick check of every listed property (default: all 14),
undoes the patch and records the outcome under /verif/harmless/<id>/ (patch, meta.json with the results).
An exit status 1 / VIOLATION line of any check on such a change is a false alarm of the machinery."""
import json
import os
import re
import shutil
import subprocess
import sys

VERIF = os.path.dirname(os.path.dirname(os.path.abspath(__file__)))
ALL = ["C%02d" % i for i in range(1, 15)]


def sh(cmd, cwd=None, timeout=3000):
    p = subprocess.run(cmd, shell=True, cwd=cwd, stdout=subprocess.PIPE, stderr=subprocess.STDOUT, timeout=timeout,
                       env=dict(os.environ, CARGO_NET_OFFLINE="true"))
    return p.returncode, p.stdout.decode("utf-8", "replace")


def main():
    mdir, hid = sys.argv[1], sys.argv[2]
    props = ALL
    if "--props" in sys.argv:
        props = sys.argv[sys.argv.index("--props") + 1].split(",")
    patch = os.path.join(mdir, "patch.diff")
    meta = {}
    if os.path.exists(os.path.join(mdir, "meta.json")):
        try:
            meta = json.load(open(os.path.join(mdir, "meta.json")))
        except Exception:
            meta = {}
    rc, out = sh("git -C /repo status --porcelain")
    if out.strip():
        print("/repo is not clean; refusing")
        return 2
    rc, out = sh("git -C /repo apply %s" % patch)
    if rc != 0:
        print("patch does not apply:", out)
        return 2
    results = {}
    try:
        for p in props:
            rc, out = sh("python3 tools/check.py --property %s --tier quick" % p, cwd=VERIF)
            vio = [l for l in out.split("\n") if l.startswith("VIOLATION") or l.startswith("KNOWN-FINDING")]
            what = []
            for l in vio:
                m = re.search(r"replay=(\S+)", l)
                if m and os.path.exists(m.group(1)):
                    try:
                        r = json.load(open(m.group(1)))
                        what.append(dict(identity=r.get("identity"), what=r.get("what", "")[:600], found_failing_input=r.get("found_failing_input")))
                    except Exception:
                        pass
            results[p] = dict(exit=rc, lines=vio, reports=what)
            print(hid, p, "exit", rc, "; ".join("%s: %s" % (w["identity"], w["what"][:160]) for w in what))
            sys.stdout.flush()
    finally:
        sh("git -C /repo checkout -- .")
        sh("rm -f %s/replays/*.json" % VERIF)
    dst = os.path.join(VERIF, "harmless", hid)
    os.makedirs(dst, exist_ok=True)
    shutil.copy(patch, os.path.join(dst, "patch.diff"))
    meta["id"] = hid
    meta["checks"] = results
    meta["alarms"] = [p for p, r in results.items() if r["exit"] != 0]
    json.dump(meta, open(os.path.join(dst, "meta.json"), "w"), indent=1, ensure_ascii=False)
    print(hid, "alarms:", ", ".join(meta["alarms"]) or "none")
    return 0


if __name__ == "__main__":
    sys.exit(main())
