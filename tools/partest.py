#!/usr/bin/env python3
"""Try changes of /repo against the checks in parallel, without touching /repo's working tree.

  python3 tools/partest.py [-j 4] [--props C05,C06 | --own | --all] <dir-with-patch.diff> ...

For every directory: a scratch worktree of /repo's HEAD gets the patch, the quick checks run with HV_REPO/HV_SANDBOX pointing at
scratch locations under /tmp (own cargo target directories, evidence and replays), the outcome is printed and written to
<dir>/partest.json, and worktree and sandbox are removed.  --own: the property named in <dir>/meta.json (seeded changes);
--all (default): all 14 properties (behaviour-preserving changes, where any alarm is a false alarm);
--out FILE: write one summary (e.g. seeded/REGRESSION.json) instead of a partest.json per directory."""
import json
import os
import re
import shutil
import subprocess
import sys
from concurrent.futures import ThreadPoolExecutor

VERIF = os.path.dirname(os.path.dirname(os.path.abspath(__file__)))
ALL = ["C%02d" % i for i in range(1, 15)]
OUTFILE = None


def sh(cmd, cwd=None, timeout=7200, env=None):
    p = subprocess.run(cmd, shell=True, cwd=cwd, stdout=subprocess.PIPE, stderr=subprocess.STDOUT, timeout=timeout, env=env)
    return p.returncode, p.stdout.decode("utf-8", "replace")


def one(mdir, props, own):
    mdir = os.path.abspath(mdir)
    tag = re.sub(r"[^A-Za-z0-9]+", "-", mdir.strip("/"))[-40:]
    wt, sb = "/tmp/hvw-" + tag, "/tmp/hvs-" + tag
    sh("git -C /repo worktree remove --force %s; rm -rf %s %s" % (wt, wt, sb))
    rc, out = sh("git -C /repo worktree add --detach %s HEAD" % wt)
    if rc != 0:
        return mdir, dict(error="worktree: " + out[-300:])
    res = {}
    try:
        rc, out = sh("git apply %s" % os.path.join(mdir, "patch.diff"), cwd=wt)
        if rc != 0:
            return mdir, dict(error="patch does not apply: " + out[-300:])
        meta = {}
        try:
            meta = json.load(open(os.path.join(mdir, "meta.json")))
        except Exception:
            pass
        ps = props
        if own:
            ps = [meta.get("property", os.path.basename(mdir).split("-")[0])]
        os.makedirs(sb, exist_ok=True)
        # start from the shared dependency builds (registry crates need no rebuild; the path crates are rebuilt)
        for t in ("target", "target-num"):
            src = os.path.join(VERIF, "build", t)
            if os.path.exists(src):
                os.makedirs(os.path.join(sb, "build"), exist_ok=True)
                sh("cp -r %s %s" % (src, os.path.join(sb, "build", t)))
        env = dict(os.environ, HV_REPO=wt, HV_SANDBOX=sb, CARGO_NET_OFFLINE="true")
        for p in ps:
            rc, out = sh("python3 tools/check.py --property %s --tier quick" % p, cwd=VERIF, env=env)
            vio = [l for l in out.split("\n") if l.startswith("VIOLATION") or l.startswith("KNOWN-FINDING")]
            what = []
            for l in vio:
                m = re.search(r"replay=(\S+)", l)
                if m and os.path.exists(m.group(1)):
                    try:
                        r = json.load(open(m.group(1)))
                        what.append(dict(identity=r.get("identity"), what=r.get("what", "")[:600], found_failing_input=r.get("found_failing_input")))
                    except Exception:
                        pass
            res[p] = dict(exit=rc, lines=vio, reports=what)
            if rc not in (0, 1):
                res[p]["tail"] = out[-600:]
            print("%-28s %s exit=%d %s" % (os.path.basename(os.path.dirname(mdir)) + "/" + os.path.basename(mdir), p, rc,
                                          "; ".join("%s: %s" % (w["identity"], w["what"][:140]) for w in what)))
            sys.stdout.flush()
    finally:
        sh("git -C /repo worktree remove --force %s; rm -rf %s %s" % (wt, wt, sb))
    if not OUTFILE:
        json.dump(res, open(os.path.join(mdir, "partest.json"), "w"), indent=1, ensure_ascii=False)
    return mdir, res


def main():
    args = sys.argv[1:]
    j, props, own = 4, ALL, False
    dirs = []
    i = 0
    while i < len(args):
        if args[i] == "-j":
            j = int(args[i + 1]); i += 2
        elif args[i] == "--props":
            props = args[i + 1].split(","); i += 2
        elif args[i] == "--out":
            global OUTFILE
            OUTFILE = args[i + 1]; i += 2
        elif args[i] == "--own":
            own = True; i += 1
        elif args[i] == "--all":
            props = ALL; i += 1
        else:
            dirs.append(args[i]); i += 1
    with ThreadPoolExecutor(max_workers=j) as ex:
        results = list(ex.map(lambda d: one(d, props, own), dirs))
    if OUTFILE:
        summ = {}
        for mdir, res in results:
            sid = os.path.basename(mdir)
            summ[sid] = res if "error" in res else {p: dict(exit=r["exit"], identities=[w["identity"] for w in r["reports"]],
                                                            no_failing_input=all("no-failing-input-found" in l for l in r["lines"]) if r["lines"] else None)
                                                    for p, r in res.items()}
        json.dump(summ, open(OUTFILE, "w"), indent=1, ensure_ascii=False)
    for mdir, res in results:
        if "error" in res:
            print(mdir, "ERROR", res["error"])
            continue
        alarms = [p for p, r in res.items() if r["exit"] != 0]
        print("%s: checks with exit != 0: %s" % (mdir, ", ".join(alarms) or "none"))
    return 0


if __name__ == "__main__":
    sys.exit(main())
