#!/usr/bin/env python3
"""MANIFEST.setup_cmd: build the framework from files on disk only (offline)."""
import os
import sys
sys.path.insert(0, os.path.dirname(os.path.abspath(__file__)))
from hv import common as C

ok, log = C.build_coq()
if not ok:
    print(log[-5000:])
    sys.exit(1)
C.build_driver()
C.build_harness()
C.build_repo_bin()
print("setup ok")
