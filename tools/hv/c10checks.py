"""C10: optimising performs none of the program's effects and always finishes."""
import random
import subprocess
import time
from collections import Counter

from . import common as C
from . import proggen as G
from . import optchecks as O
from . import scripted as S

SENTINEL = "sentinel line 1\nsecond 🙂 line\nno newline at end".encode("utf-8")


def templates():
    out = []
    # select 0/1/2, then pop: directly, in multi-operand commands, inside ?/! areas
    for sel in (0, 1, 2):
        d = "." * sel
        out.append(("select%d-pop" % sel, "흑%s 항..." % d))
        out.append(("select%d-multi" % sel, "형.. 흑%s 하아앙..." % d))
        out.append(("select%d-mul" % sel, "형.. 흑%s 하앗..." % d))
        out.append(("select%d-sub" % sel, "형.. 흑%s 흐읏..." % d))
        out.append(("select%d-recip" % sel, "형.. 흑%s 흐읍..." % d))
        out.append(("select%d-dup" % sel, "형.. 흑%s 흑..." % d))
        out.append(("select%d-area-q" % sel, "형.. 흑%s 형.?♥" % d))
        out.append(("select%d-area-b" % sel, "형.. 흑%s 형.!♥" % d))
        out.append(("select%d-area-nested" % sel, "형.. 흑... 형. 흑%s 형.?!♥?❤" % d))
        # areas without any heart (they pop for the comparison but can never jump), first thing and after a push, every kind
        for bare in ("?", "!", "??", "?!", "!?", "!!?"):
            out.append(("select%d-bare-area-first" % sel, "흑%s 형%s" % (d, bare)))
            out.append(("select%d-bare-area" % sel, "형.. 흑%s 형.%s" % (d, bare)))
            out.append(("select%d-bare-area-after-pushes" % sel, "형.. 형... 흑%s 형.%s 형..%s" % (d, bare, bare)))
        for k in ("항...", "핫...", "흣...", "흡...", "흑..."):
            out.append(("select%d-bare-area-kind" % sel, "형.. 흑%s %s?!" % (d, k)))
    out.append(("squaring-loop", "형.. 흑...♥ 하앗... 흑...♥"))         # values double in size with every round: skipped, see run()
    out.append(("read-first-thing", "흑 항. 항."))
    out.append(("exit-immediately", "흑. 항"))
    out.append(("exit-immediately-2", "흑.. 핫"))
    out.append(("loop-forever-small", "형.♥ 형. 항... 형..❤ 형.♥"))
    out.append(("loop-forever-2", "형.♥ 형.♥"))
    out.append(("loop-forever-white", "형.♥ 형..❤ 형.♥ 형...♡"))
    out.append(("loop-250", G.count_loop(250)))
    out.append(("loop-then-read", G.count_loop(120) + " 흑 항."))
    out.append(("enc-error", "형" + "." * 65 + " 항. 혀어어어어어어엉" + "." * 6912 + " 항."))
    return out


def run_child(level, prog, timeout=8):
    t0 = time.time()
    try:
        p = subprocess.run([C.HARNESS, "--child", "optimize", str(level), G.cps(prog)], input=SENTINEL, stdout=subprocess.PIPE,
                           stderr=subprocess.PIPE, timeout=timeout)
    except subprocess.TimeoutExpired as e:
        return "timeout", e.stdout or b"", e.stderr or b"", time.time() - t0
    return p.returncode, p.stdout, p.stderr, time.time() - t0


def judge(level, prog, r):
    rc, out, err, dt = r
    want_hex = SENTINEL.hex()
    if rc == "timeout":
        return "does-not-finish"
    if rc != 0:
        return "process-terminated"
    lines = out.decode("utf-8", "replace").split("\n")
    if len(lines) != 2 or lines[1] != "" or not lines[0].startswith("HV-OPT-DONE "):
        return "writes-to-stdout" if "HV-OPT-DONE" in out.decode("utf-8", "replace") else "no-completion-marker"
    if err != b"":
        return "writes-to-stderr"
    f = lines[0].split(" ")
    if f[-1] != want_hex:
        return "reads-stdin"
    return None


def run(prop, tier, seed):
    V = C.Verdict(prop, tier, seed)
    rng = random.Random(seed)
    pc = C.proof_check(prop)
    C.build_driver()
    C.build_harness()
    quick = tier == "quick"
    n = 220 if quick else 5000
    cases = templates()
    for _ in range(max(150, n // 2)):
        cases.append(("scripted", S.scripted(rng, with_read=rng.random() < 0.3)))
    for _ in range(n):
        cmds = G.gen_program(rng)
        # bias: make stacks 0-2 selected often
        if rng.random() < 0.5:
            cmds.insert(rng.randrange(len(cmds) + 1), (5, 1, rng.choice([0, 1, 2]), [[None]]))
        # bias: areas that compare (and therefore pop) but hold no heart at all
        if rng.random() < 0.35:
            i = rng.randrange(len(cmds))
            k, sy, dt, _ = cmds[i]
            cmds[i] = (k, sy, dt, [[None] * rng.choice([1, 1, 2]) for _ in range(rng.choice([1, 2, 2, 3]))])
        cases.append(("random", G.render(cmds)))
    jobs = [(lv, tag, prog) for tag, prog in cases for lv in (0, 1, 2)]
    res = C.pmap(lambda j: run_child(j[0], j[2]), jobs)
    hist = Counter()
    distinct = set()
    fails = []
    slowest = 0.0
    for (lv, tag, prog), r in zip(jobs, res):
        hist[tag if tag in ("random", "scripted") else "template"] += 1
        slowest = max(slowest, r[3])
        if len(prog) > 6:
            distinct.add((lv, prog))
        v = judge(lv, prog, r)
        if v == "does-not-finish" and lv >= 1 and C.timed_out(C.run_model(["opt state %d %s" % (lv, G.cps(prog))])[0]):
            # the number of speculative steps is bounded by the program text (proved for the model), their cost is not when
            # values double in size with every round: the model's optimiser does not finish in time either — outside the
            # property, which speaks of loops "whose values stay small"
            hist["value-explosion-skipped"] += 1
            continue
        if v:
            fails.append((lv, tag, prog, v, r))
        else:
            hist["marker:" + r[1].decode("utf-8", "replace").split(" ")[1].split(":")[0]] += 1
    seen = set()
    t_shrink = time.time()
    for lv, tag, prog, v, r in sorted(fails, key=lambda f: len(f[2]))[:30]:
        ident = "%s:level%d" % (v, lv)
        if ident in seen:
            continue
        seen.add(ident)

        def bad(p, s):
            return judge(lv, p, run_child(lv, p, timeout=3)) == v
        sp = prog
        if time.time() - t_shrink < 60:
            sp, _ = O.E.shrink_case(prog, "", bad, budget=12)
        rr = run_child(lv, sp)
        V.violation(ident, "optimize(level %d) of %r %s: status %r stdout %r stderr %r" % (lv, sp, v, rr[0], rr[1][:200], rr[2][:200]),
                    dict(program=sp, level=lv, verdict=v, status=str(rr[0]), stdout=rr[1].decode("utf-8", "replace")[:2000],
                         stderr=rr[2].decode("utf-8", "replace")[:2000], sentinel_hex=SENTINEL.hex(), original_program=prog))
    # correspondence of the optimiser model (result of optimize) at library level
    corr = []
    for lv in (1, 2):
        ls = ["opt state %d %s" % (lv, G.cps(p)) for _, p in cases]
        a, b = C.run_impl(ls), C.run_model(ls)
        for (tag, p), x, y in zip(cases, a, b):
            if C.timed_out(x, y):
                continue
            if x != y:
                corr.append((lv, p, x, y))
    if corr and not fails:
        lv, p, x, y = corr[0]
        V.violation("correspondence:" + prop, "optimiser model/implementation correspondence no longer checks at level %d on %r" % (lv, p),
                    dict(correspondence="L0 optimize::optimize vs L1 coq/Model/Opt.v", program=p, impl=x, model=y, disagreements=len(corr)),
                    found_input=False)
    if not pc["ok"]:
        V.violation("proof:" + prop, "proof obligations of %s do not check: %s" % (prop, "; ".join(pc["problems"])),
                    dict(theorem_file="coq/Props/%s.v" % prop, problems=pc["problems"]), found_input=False)
    V.coverage = dict(
        obligations=pc["obligations"], discharged=pc["discharged"], supporting_lemmas=pc["supporting_lemmas"],
        checker_cmd="make -C coq Props/%s.vo && coqc -Q coq HV coq/Props/%s.v (Print Assumptions) ; python3 tools/check.py --property %s --tier %s"
                    % (prop, prop, prop, tier),
        trusted_base=C.TRUSTED_BASE, axioms=pc["axioms"], proof_files=pc["files"],
        evaluations=len(jobs) + 2 * len(cases), distinct_nontrivial=len(distinct),
        rule="programs that select stack 0, 1 or 2 and then pop (directly, in multi-operand commands, inside ?/! areas), exit or read first "
             "thing, loop forever on small values, plus random programs biased to select 0-2; for each level 0..2 a child process calls "
             "optimize::optimize with a sentinel on stdin and must print only the completion marker, leave the sentinel unread, exit 0 "
             "within the time limit; optimize()'s result is also compared with the extracted model",
        samples=[dict(level=jobs[i][0], tag=jobs[i][1], program=jobs[i][2][:100], stdout=res[i][1].decode("utf-8", "replace")[:60], seconds=round(res[i][3], 3))
                 for i in range(0, len(jobs), max(1, len(jobs) // 6))][:8],
        histogram=dict(hist), slowest_seconds=round(slowest, 3), correspondence_disagreements=len(corr), property_failures=len(fails))
    V.assumptions = ["the model cannot exhibit the real stdin handle, file descriptors 1/2 or process termination: that part rests on the child-process observation",
                     "termination is proved as a bound on interpreter steps; arithmetic on growing numbers is not bounded by it"]
    return V.finish()


def replay(prop, path):
    import json
    r = json.load(open(path))
    C.build_harness()
    print(run_child(r.get("level", 2), r.get("program", "")))
    return 0
