"""Control-flow-heavy program generators.

scripted(): a decision script is pushed first; then a chain of commands whose `?` areas pop one decision each and
choose between hearts / white heart / nothing, each followed by a command printing its own letter.  This drives
label registration, backward and forward jumps, repeated white-heart returns and fall-throughs in every order, and
terminates when the script runs out (NaN goes right).  An optional read in the middle stops level-2 pre-execution
there, so that the compiled level-2 program starts from a serialised pre-state with labels and a pending white-heart
target.

branch(): builds a value p/q (optionally negated, or NaN) and branches on it with `?` or `!` against a count.
"""
from . import parsegen as P

ALL_HEARTS = ["♥", "❤", "💕", "💖", "💗", "💘", "💙", "💚", "💛", "💜", "💝"]


def scripted(rng, with_read=None, mode=None):
    mode = mode or rng.choice(["mixed", "mixed", "same-heart", "two-hearts"])
    HEARTS = rng.sample(ALL_HEARTS, 3)                                    # a palette of three of the eleven coloured hearts per program
    n_dec = rng.choice([3, 5, 8, 12, 16])
    decisions = [rng.choice([0, 0, 5]) for _ in range(n_dec)]          # 0 -> left branch (0 < 3), 5 -> right (5 < 3 false)
    prog = []
    for d in reversed(decisions):                                         # first decision on top
        prog.append("형" + "." * d if d else "형")
    m = rng.choice([2, 3, 4, 5, 6])
    with_read = rng.random() < 0.5 if with_read is None else with_read
    read_at = rng.randrange(m) if with_read else -1
    for i in range(m):
        if i == read_at:
            prog += ["흑", "항.", "흑..."]                                 # read one character, print it, back to stack 3
        if mode == "two-hearts":
            # both branches carry (different) labels: a command visited twice registers two labels at the same place
            left, right = rng.sample(HEARTS[:3], 2)
        elif mode == "same-heart":
            # every command carries the same label and returns through the white heart: loops made of white-heart jumps only
            left, right = HEARTS[0], rng.choice(["♡", "♡", ""])
        else:
            left = rng.choice(HEARTS[:3] + ["♡", "♡", ""])
            right = rng.choice(HEARTS[:3] + ["♡", "", "", ""])
        # 항... : pop one value and push it back to stack 3 (net nothing); area pops one decision and compares with 3
        prog.append("항..." + left + "?" + right)
        prog.append("형" + "." * (65 + i))                                # push the letter
        prog.append("항.")                                               # print it
    return " ".join(prog)


def branch(rng):
    """A value p/q (optionally negated, or NaN) compared by `?` or `!` with a count c.  The count and the operator are drawn
    first, then the value by its position relative to the count: just below / just above by a proper fraction (for c = 0: a
    value strictly between -1 and 0), equal, the neighbouring integers, far below zero, NaN, or anything."""
    op = rng.choice(["?", "?", "!"])
    zero_form = op == "?" and rng.random() < 0.6
    c = rng.choice([0, 0, 1, 2, 3, 5]) if zero_form else rng.choice([3, 4, 5, 6])
    cls = rng.choice(["below-frac", "below-frac", "above-frac", "equal", "below-int", "above-int", "far-negative", "nan", "any", "any"])
    nan = cls == "nan"
    q = rng.choice([2, 3, 4])
    if cls == "below-frac":
        num = c * q - rng.choice([1, q - 1])
    elif cls == "above-frac":
        num = c * q + rng.choice([1, q - 1])
    elif cls == "equal":
        num, q = (c, 1) if rng.random() < 0.5 else (c * q, q)             # also as an unreduced fraction
    elif cls == "below-int":
        num, q = c - 1, 1
    elif cls == "above-int":
        num, q = c + 1, 1
    elif cls == "far-negative":
        num = -rng.choice([7, 9, 15])
    else:
        num = rng.choice([0, 1, 2, 3, 4, 5, 7, 9, 11, 15]) * rng.choice([1, 1, -1])
        q = rng.choice([1, 1, 2, 3, 4])
    p, neg = abs(num), num < 0
    prog = []
    if nan:
        prog += ["형.", "항......."]                                     # leave stack 3 empty: the pop yields NaN
    else:
        prog += ["형" + "." * p if p else "형", "형" + "." * q, "흡.......", "하앗..."]   # p, q -> 1/q (copy to stack 7) -> p/q
        if neg:
            prog.append("흣.......")                                     # negate in place (sum to stack 7)
    # left heart: branch taken, right heart: not taken — at least one of them, or the branch would not be observable
    lh, rh = rng.choice([(h, "♥") for h in ALL_HEARTS[1:]] + [(h, "") for h in ALL_HEARTS[1:4]] + [("", "♥")] * 3)
    if zero_form:
        # 형 with c dots pushes the count c itself; `?(_, ?(L, R))`: the first ? pops that count (never below itself), the
        # second pops the value and compares it with c — any count, including 0
        prog.append("형" + "." * c + "?" + lh + "?" + rh)
    else:
        # 흑 with c dots: copy the value to stack c and select it; the area pops the copy and compares it with the count c
        prog.append("흑" + "." * c + lh + op + rh)
    prog += ["형" + "." * 66, "항."]
    return " ".join(prog)


def bigarith(rng, max_sq=None):
    """Arithmetic on multi-limb values: a small base squared k times (흑... duplicates, 하앗... multiplies: b^(2^k), beyond 2^32
    from k = 3 on), a second base, then a random mix of reciprocals, negations, sums and products — fractions whose numerator is
    shorter than the denominator and the other way round, equal operands, opposite operands — ending with comparisons against a
    count and an attempt to print (a diagnosed encoding error for anything that is not a scalar value)."""
    def power(b, k):
        return ["형" + "." * b] + ["흑...", "하앗..."] * k
    k1 = rng.choice([2, 3, 3, 4] if max_sq is None else list(range(2, max_sq + 1)))
    prog = power(rng.choice([2, 3, 7, 10, 16, 16, 255, 256] if k1 <= 3 else [2, 3, 7, 16]), k1)
    if rng.random() < 0.7:
        prog += power(rng.choice([2, 3, 5, 16, 17]), rng.choice([0, 1, 2, 3]))
    ops = ["흡...",            # reciprocal of the top value (leaves two copies of it)
           "흣...",            # negation of the top value (two copies)
           "하앙...",          # sum of the two top values
           "하앗...",          # product of the two top values
           "흑...",            # duplicate
           "흐읍...",          # reciprocals of two values and their product
           "흐읏...",          # negations of two values and their sum
           "형.", "형", "형...",
           "항.......",        # move the top value away (to stack 7)
           ]
    for _ in range(rng.choice([2, 3, 4, 6, 8])):
        prog.append(rng.choice(ops))
    r = rng.random()
    if r < 0.35:
        c = rng.choice([0, 1, 2, 5])
        prog.append("형" + "." * c + "?♥?❤")               # compare the two top values (the count itself first) with the count
        prog += ["형" + "." * 66, "항."]
    elif r < 0.7:
        prog.append("항.")                                  # print: an unencodable value ends the run with a diagnostic
    elif r < 0.85:
        prog.append("항..")
    else:
        prog += ["흑....!💕", "형" + "." * 67, "항."]
    return " ".join(prog)
