"""Control-flow-heavy program generators.

scripted(): a decision script is pushed first; then a chain of commands whose `?` areas pop one decision each and
choose between hearts / white heart / nothing, each followed by a command printing its own letter.  This drives
label registration, backward and forward jumps, repeated white-heart returns and fall-throughs in every order, and
terminates when the script runs out (NaN goes right).  An optional read in the middle stops level-2 pre-execution
there, so that the compiled level-2 program starts from a serialised pre-state with labels and a pending white-heart
target.

branch(): builds a value p/q (optionally negated, or NaN) and branches on it with `?` or `!` against a count.
"""
from . import parsegen as P

HEARTS = ["♥", "❤", "💕", "💖"]


def scripted(rng, with_read=None, mode=None):
    mode = mode or rng.choice(["mixed", "mixed", "same-heart", "two-hearts"])
    n_dec = rng.choice([3, 5, 8, 12, 16])
    decisions = [rng.choice([0, 0, 5]) for _ in range(n_dec)]          # 0 -> left branch (0 < 3), 5 -> right (5 < 3 false)
    prog = []
    for d in reversed(decisions):                                         # first decision on top
        prog.append("형" + "." * d if d else "형")
    m = rng.choice([2, 3, 4, 5, 6])
    with_read = rng.random() < 0.5 if with_read is None else with_read
    read_at = rng.randrange(m) if with_read else -1
    for i in range(m):
        if i == read_at:
            prog += ["흑", "항.", "흑..."]                                 # read one character, print it, back to stack 3
        if mode == "two-hearts":
            # both branches carry (different) labels: a command visited twice registers two labels at the same place
            left, right = rng.sample(HEARTS[:3], 2)
        elif mode == "same-heart":
            # every command carries the same label and returns through the white heart: loops made of white-heart jumps only
            left, right = "♥", rng.choice(["♡", "♡", ""])
        else:
            left = rng.choice(HEARTS[:3] + ["♡", "♡", ""])
            right = rng.choice(HEARTS[:3] + ["♡", "", "", ""])
        # 항... : pop one value and push it back to stack 3 (net nothing); area pops one decision and compares with 3
        prog.append("항..." + left + "?" + right)
        prog.append("형" + "." * (65 + i))                                # push the letter
        prog.append("항.")                                               # print it
    return " ".join(prog)


def branch(rng):
    p = rng.choice([0, 1, 2, 3, 4, 5, 7, 9, 11, 15])
    q = rng.choice([1, 1, 2, 3, 4])
    neg = rng.random() < 0.4
    nan = rng.random() < 0.1
    op = rng.choice(["?", "?", "!"])
    prog = []
    if nan:
        prog += ["형.", "항......."]                                     # leave stack 3 empty: the pop yields NaN
    else:
        prog += ["형" + "." * p if p else "형", "형" + "." * q, "흡.......", "하앗..."]   # p, q -> 1/q (copy to stack 7) -> p/q
        if neg:
            prog.append("흣.......")                                     # negate in place (sum to stack 7)
    lh, rh = rng.choice(["❤", "❤", ""]), rng.choice(["♥", "♥", ""])     # left heart: branch taken, right heart: not taken
    if op == "?" and rng.random() < 0.6:
        # 형 with c dots pushes the count c itself; `?(_, ?(L, R))`: the first ? pops that count (never below itself), the
        # second pops the value and compares it with c — any count, including 0
        c = rng.choice([0, 0, 1, 2, 3, 5])
        prog.append("형" + "." * c + "?" + lh + "?" + rh)
    else:
        # 흑 with c dots: copy the value to stack c and select it; the area pops the copy and compares it with the count c
        c = rng.choice([3, 4, 5, 6])
        prog.append("흑" + "." * c + lh + op + rh)
    prog += ["형" + "." * 66, "항."]
    return " ".join(prog)
