"""C11: the debugger shows the true state, steps back exactly, never crashes."""
import os
import random
import re
from collections import Counter

from . import common as C
from . import proggen as G
from . import scripted as S

HELP = ("[b] break       show breakpoints\n[b] break NUM   set/unset breakpoint on NUM\nexit            Exit debugger\n"
        "[h] help        Print this\n[n] next        goto next command\n[s] state       print state status\n"
        "[p] previous    move to previous state\n[r] run         run until breakpoint\n")
WORDS = ["next", "n", "previous", "p", "run", "r", "state", "s", "break", "b", "help", "h", "", "bogus", "nxt", "statee", "exit "]


def exit_both(rng):
    """writes to stdout and to stderr, then exits through stack 1 or stack 2"""
    a, b = rng.choice([66, 67, 72]), rng.choice([69, 70, 33])
    ex = rng.choice(["흑. 항", "흑.. 핫"])
    parts = ["형" + "." * a, "항.", "형" + "." * b, "항..", "형..", "항..."]
    rng.shuffle(parts) if False else None
    return " ".join(parts + [ex])


def gen_program(rng):
    r = rng.random()
    if r < 0.08:
        return exit_both(rng)
    if r < 0.15:
        return G.count_loop(rng.choice([2, 3, 4]))
    if r < 0.5:
        return S.scripted(rng, with_read=False)
    if r < 0.58:
        return "형" + "." * 65 + " 항. 혀어어어어어어엉" + "." * 6912 + " 항. 형.. 항."
    if r < 0.68:
        return G.render([c for c in G.gen_program(rng, rng.choice([2, 4, 6])) if not (c[0] == 5 and c[2] == 0)] or [(0, 1, 1, [[None]])]) + " 흑. 항"
    cmds = [c for c in G.gen_program(rng, rng.choice([1, 2, 3, 5, 8, 10])) if not (c[0] == 5 and c[2] == 0)]
    return G.render(cmds or [(0, 1, 1, [[None]])])


def gen_script(rng, ncmds):
    if rng.random() < 0.2:
        # a breakpoint somewhere, then `run` several times (a breakpoint inside a loop is met once per round), states in between
        out = ["b %d" % rng.randrange(max(1, ncmds))]
        if rng.random() < 0.5:
            out.append(rng.choice(["n", "r"]))
        for _ in range(rng.choice([2, 3, 5])):
            out.append(rng.choice(["r", "run"]))
            if rng.random() < 0.6:
                out.append("s")
        return out
    n = rng.choice([1, 3, 6, 10, 16])
    out = []
    for _ in range(n):
        r = rng.random()
        if r < 0.3:
            out.append(rng.choice(["next", "n"]))
        elif r < 0.42:
            out.append(rng.choice(["previous", "p"]))
        elif r < 0.52:
            out.append(rng.choice(["run", "r"]))
        elif r < 0.64:
            out.append(rng.choice(["state", "s"]))
        elif r < 0.84:
            w = rng.choice(["break", "b"])
            arg = rng.choice(["", "0", "1", str(max(0, ncmds - 1)), str(ncmds), str(ncmds + 1), "99999999999999999999999", "x", "-1", "+2",
                              str(rng.randint(0, ncmds + 1)), " 2", "1 2", "18446744073709551615", "18446744073709551616"])
            out.append((w + " " + arg) if arg != "" else w)
        elif r < 0.9:
            out.append(rng.choice(["help", "h", ""]))
        else:
            out.append(rng.choice(WORDS) + rng.choice(["", " extra", "  "]))
    if rng.random() < 0.3:
        out.append("exit")
    return out


def listing(entries, fname):
    """print_un_opt_codes(..., raw = true): entries = [(index, line, col, raw)]"""
    if not entries:
        return ""
    idx_len = max(len(str(i)) for i, _, _, _ in entries)
    file_len = max(len(str(l)) + len(str(c)) for _, l, c, _ in entries)
    out = ""
    for i, l, c, raw in entries:
        out += "%d%s | %s:%d:%d%s  %s\n" % (i, " " * (idx_len - len(str(i))), fname, l, c, " " * (file_len - len(str(l)) - len(str(c))), raw)
    return out


WILD = r"(?:(?!(?:> )*(?:\[stdout\] |\[stderr\] |current stack: |stack \d+: ))[^\n]*\n|> )*?"


ANYLINE = r"(?:(?!(?:> )*(?:\[stdout\] |\[stderr\] ))[^\n]*\n|> )*?"


def state_pattern(truth):
    """a state dump of any layout: lines among which, in this order, one shows the selected stack and one line per non-empty
    stack shows its index followed by its elements in order"""
    import re
    cur, stacks = truth
    num = lambda v: r"(?<![\d/])%d(?![\d/])" % v
    pat = ANYLINE + r"[^\n]*" + num(cur) + r"[^\n]*\n"
    for i, elems in stacks:
        pat += ANYLINE + r"[^\n]*?" + num(i) + "".join(r"[^\n]*?" + re.escape(e) for e in elems) + r"[^\n]*\n"
    return pat + ANYLINE


def shows(text, truth):
    """does the text show the state: the selected stack, and every non-empty stack with its elements in order?"""
    import re
    cur, stacks = truth
    if not re.search(r"(?<![\d/])%d(?![\d/])" % cur, text):
        return "the selected stack %d" % cur
    for i, elems in stacks:
        ok = False
        for line in text.split("\n"):                       # one line per stack, whatever the layout
            pos = re.search(r"(?<![\d/])%d(?![\d/])" % i, line)
            if not pos:
                continue
            at, good = pos.end(), True
            for e in elems:
                j = line.find(e, at)
                if j < 0:
                    good = False
                    break
                at = j + len(e)
            if good:
                ok = True
                break
        if not ok:
            return "stack %d = [%s]" % (i, ", ".join(elems))
    return None


def free_layout_match(events, got, fname, cmds, truths):
    """Layout-free comparison (linear): the lines the property fixes — echoed commands, [stdout]/[stderr] records — must be the
    expected ones in order; every `state` request must be answered, in the free lines at its place, by text that shows the
    true state.  Everything else is free."""
    import re
    txt = lambda f: "".join(chr(int(x)) for x in f.split(".")) if f else ""
    exp = []                                     # ("L", line) | ("S", k)
    for ev in events:
        if ev.startswith("C:") and ev != "C:":
            ids = [int(x) for x in ev[2:].split(".")] if ev[2:] else []
            for ln in listing([(i,) + cmds[i] for i in ids], fname).split("\n")[:-1]:
                exp.append(("L", ln))
        elif ev.startswith("F:"):
            _, o, e = ev.split(":")
            for tag, t in (("[stdout] ", txt(o)), ("[stderr] ", txt(e))):
                if t:
                    if "\n" in t or "\r" in t:
                        return False             # multi-line program text: not handled here
                    exp.append(("L", tag + t))
        elif ev.startswith("S:"):
            exp.append(("S", int(ev[2:])))
    fixed_re = re.compile(r"^(?:\[stdout\] |\[stderr\] |\d+ *\| %s:\d+:\d+ )" % re.escape(fname))
    regions, fixed, cur = [], [], []
    for ln in got.split("\n"):
        s = ln
        while s.startswith("> "):
            s = s[2:]
        if fixed_re.match(s):
            regions.append("\n".join(cur))
            cur = []
            fixed.append(s)
        else:
            cur.append(s)
    regions.append("\n".join(cur))
    want_fixed = [x for t, x in exp if t == "L"]
    if fixed != want_fixed:
        return False
    j = 0
    for t, x in exp:
        if t == "L":
            j += 1
        elif x >= len(truths) or shows(regions[j], truths[x]) is not None:
            return False
    return True


def loose_pattern(events, end, fname, path, cmds, states, truths=None):
    """a regular expression for the transcript in which only what the property talks about is fixed — the echoed commands,
    the text shown for stdout/stderr, the displayed states — and everything else (log lines, error wording, help text,
    prompts) may be reworded; such lines can never look like a [stdout]/[stderr] record or a state dump"""
    import re
    txt = lambda f: "".join(chr(int(x)) for x in f.split(".")) if f else ""
    pat = WILD
    for ev in events:
        seg = None
        if ev.startswith("C:") and ev != "C:":
            ids = [int(x) for x in ev[2:].split(".")] if ev[2:] else []
            seg = listing([(i,) + cmds[i] for i in ids], fname)
        elif ev.startswith("F:"):
            _, o, e = ev.split(":")
            seg = ("[stdout] " + txt(o) + "\n" if o else "") + ("[stderr] " + txt(e) + "\n" if e else "")
        elif ev.startswith("S:"):
            k = int(ev[2:])
            if truths is not None:
                # layout-free: the dump only has to show the true state
                if k < len(truths):
                    pat += state_pattern(truths[k]) + WILD
                continue
            seg = states[k] if k < len(states) else None
        if seg:
            pat += re.escape(seg) + WILD
    return re.compile(pat + r"\Z", re.S)


def render(events, end, fname, path, cmds, states):
    t = "==> running in debug mode\n==> parsing %s\n" % path
    txt = lambda f: "".join(chr(int(x)) for x in f.split(".")) if f else ""
    for ev in events:
        if ev == "P":
            t += "> "
        elif ev.startswith("C:"):
            ids = [int(x) for x in ev[2:].split(".")] if ev[2:] else []
            t += listing([(i,) + cmds[i] for i in ids], fname)
        elif ev.startswith("F:"):
            _, o, e = ev.split(":")
            if o:
                t += "[stdout] " + txt(o) + "\n"
            if e:
                t += "[stderr] " + txt(e) + "\n"
        elif ev == "MB":
            t += "==> moved back\n"
        elif ev == "CGB":
            t += "[error] can't go back\n"
        elif ev.startswith("S:"):
            k = int(ev[2:])
            t += states[k] if k < len(states) else "<<state %d unavailable>>" % k
        elif ev == "LB":
            t += "==> printing breakpoints\n"
        elif ev.startswith("IE:"):
            t += "[error] ParseIntError { kind: %s }\n" % ev[3:]
        elif ev == "RG":
            t += "[error] number exceeds the range\n"
        elif ev.startswith("SET:"):
            t += "==> set breakpoint on line %s\n" % ev[4:]
        elif ev.startswith("UNSET:"):
            t += "==> unset breakpoint on line %s\n" % ev[6:]
        elif ev == "H":
            t += HELP
        elif ev.startswith("NF:"):
            t += "[error] command \"%s\" not found\n" % txt(ev[3:])
    return t


def run(prop, tier, seed):
    V = C.Verdict(prop, tier, seed)
    rng = random.Random(seed)
    pc = C.proof_check(prop)
    C.build_driver()
    C.build_harness()
    C.build_repo_bin()
    quick = tier == "quick"
    n = 220 if quick else 6000
    d = C.scratch_dir("c11")
    progs = [gen_program(rng) for _ in range(n)]
    deep_rounds = {}
    for k in range(n - (6 if quick else 60), n):
        deep_rounds[k] = rng.randint(88, 200)
        progs[k] = G.count_loop(deep_rounds[k], body=rng.choice(["혀어어어엉............. 항.", "형", "형.. 항.."])) + " 형. 형.."
    parsed = C.run_impl(["parse " + G.cps(p) for p in progs])
    infos = []
    for r in parsed:
        cs = []
        for c in (r.split("|") if r else []):
            f = c.split(",")
            cs.append((int(f[3]), int(f[4]), "".join(chr(int(x)) for x in f[7].split(".")) if f[7] else ""))
        infos.append(cs)
    scripts = [gen_script(rng, len(cs)) for cs in infos]
    # deep histories: `run` over several hundred commands (a counting loop, breakpoint on the command after it), then
    # `previous` as often as commands were executed, or nearly so, and the state shown there and after stepping forward again
    # ("`previous` restores precisely the state before the last step however often it is used")
    deep = set(range(n - (6 if quick else 60), n))
    for k in deep:
        steps = 6 * deep_rounds[k] + 1
        m = rng.choice([steps, steps - 1, steps + 2, steps - rng.randint(2, 40), rng.randint(500, steps)])
        scripts[k] = ["b %d" % (len(infos[k]) - 2), "r", "s"] + ["p"] * m + ["s", "n", "s", "r", "s"]
    st = C.run_impl(["dbgstates %d " % (1400 if k in deep else 400) + G.cps(p) for k, p in enumerate(progs)])
    states = [[bytes.fromhex(h).decode("utf-8") for h in s.split("|")[0].split(",")] if s.split("|")[0] else [] for s in st]
    # what a state dump has to show: the selected stack and every non-empty stack with its elements in order (read through
    # the State API); the layout of the dump is free
    truths = []
    for s in st:
        tl = []
        for t in (s.split("|")[1].split(",") if "|" in s and s.split("|")[1] else []):
            cur, _, rest = t.partition(" ")
            stacks = []
            for part in (rest.split(";") if rest else []):
                i, _, vals = part.partition(":")
                stacks.append((int(i), [bytes.fromhex(v).decode("utf-8") for v in vals.split(".") if v]))
            tl.append((int(cur), stacks))
        truths.append(tl)

    incomplete = []
    for k in range(n):
        for j, (txt, tr) in enumerate(zip(states[k], truths[k])):
            miss = shows(txt, tr)
            if miss:
                incomplete.append((k, j, miss, txt))
                break
    model = C.run_model(["debug 1 1 20000 %s %s" % (G.cps(p), ";".join(G.cps(l + "\n") for l in sc)) for p, sc in zip(progs, scripts)])

    def real(k):
        path = os.path.join(d, "d%d.hyeong" % k)
        with open(path, "w", encoding="utf-8") as fh:
            fh.write(progs[k])
        return C.run_hyeong(["debug", path], "".join(l + "\n" for l in scripts[k]).encode("utf-8"), timeout=6)
    reals = C.pmap(real, range(n))
    hist = Counter()
    distinct = set()
    fails, corr = [], []
    # the echo of commands (print_un_opt_codes, raw = true) as rendered here against the listing model coq/Model/Listing.v
    echo = []
    for k in range(n):
        if C.timed_out(model[k]):
            continue
        for ev in model[k].split("|")[:-1]:
            if ev.startswith("C:") and ev[2:]:
                echo.append((k, ev[2:]))
    echo = sorted(set(echo))[:4000]
    ml = C.run_model(["listingraw %s %s %s" % (G.cps("d%d.hyeong" % k), G.cps(progs[k]), ids) for k, ids in echo])
    for (k, ids), r in zip(echo, ml):
        mine = listing([(i,) + infos[k][i] for i in (int(x) for x in ids.split(".")) if i < len(infos[k])], "d%d.hyeong" % k)
        theirs = "".join(chr(int(x)) for x in r[3:].split(".")) if r.startswith("ok:") and r[3:] else ("" if r == "ok:" else r)
        hist["echo-rendering-checked"] += 1
        if mine != theirs:
            corr.append((k, ids, mine, theirs))
    for k in range(n):
        cls, out, err = reals[k]
        got = out.decode("utf-8", "replace")
        gerr = err.decode("utf-8", "replace")
        if C.timed_out(model[k]):
            hist["evaluator-timeout-skipped"] += 1
            continue
        parts = model[k].split("|")
        end = parts[-1][4:]
        events = parts[:-1]
        for l in scripts[k]:
            hist["cmd:" + (l.split(" ")[0] or "<blank>")] += 1
        hist["end:" + end.split(":")[0]] += 1
        if len(scripts[k]) >= 3:
            distinct.add((progs[k], tuple(scripts[k])))
        path = os.path.join(d, "d%d.hyeong" % k)
        if cls == "timeout":
            hist["skipped-nonterminating"] += 1
            continue
        crashed = cls not in ("exit0", "exit1") or "panicked" in gerr
        if crashed:
            fails.append((k, "crash", got, "", cls, gerr))
            continue
        if end in ("fuel", "panic") or cls == "timeout":
            hist["skipped"] += 1
            continue
        want = render(events, end, "d%d.hyeong" % k, path, infos[k], states[k])
        want_cls = {"eof": "exit0", "quit": "exit0", "finished": "exit0", "exit0": "exit0", "exit1": "exit1"}.get(end, "exit1")
        if got != want or cls != want_cls:
            # not the exact transcript of the model: a reworded log/help/error line is not a violation as long as the
            # echoed commands, the shown program text and the displayed states are exactly the expected ones
            # (the regular expression is only tried on short sessions: on a long transcript that does not match it backtracks
            # for hours; long sessions go to the linear comparison below)
            if cls == want_cls and len(scripts[k]) <= 60 and loose_pattern(events, end, "d%d.hyeong" % k, path, infos[k], states[k]).match(got):
                hist["cosmetic-difference"] += 1
                continue
            # the debugger may lay a state dump out in its own way: then it only has to show the true state
            if cls == want_cls and free_layout_match(events, got, "d%d.hyeong" % k, infos[k], truths[k]):
                hist["state-layout-differs"] += 1
                continue
            fails.append((k, "transcript", got, want, cls, gerr))
    seen = set()
    for k, kind, got, want, cls, gerr in fails[:30]:
        if kind == "crash":
            ident = "debugger:crash"
        elif "[error] utf-8" in gerr and len(got) < len(want):
            ident = "debugger:lost-output-on-error"
        else:
            ident = "debugger:transcript"
        if ident in seen:
            continue
        seen.add(ident)
        V.violation(ident, "debugger on %r with commands %r: %s; transcript %r, expected %r, status %s, stderr %r"
                    % (progs[k], scripts[k], kind, got[-300:], want[-300:], cls, gerr[-200:]),
                    dict(program=progs[k], script=scripts[k], transcript=got, expected=want, status=cls, stderr=gerr))
    if corr and not fails:
        k, ids, mine, theirs = corr[0]
        V.violation("correspondence:" + prop, "the echo of commands %s of %r as expected by the check differs from the listing model: %r vs %r" % (ids, progs[k], mine, theirs),
                    dict(correspondence="tools/hv/dbgchecks.py listing() vs L1 coq/Model/Listing.v (listing_text true)", program=progs[k], ids=ids), found_input=False)
    if incomplete:
        k, j, miss, txt = min(incomplete, key=lambda x: (x[1], len(progs[x[0]])))
        V.violation("debugger:state-display-incomplete",
                    "the state dump after %d steps of %r does not show %s: %r" % (j, progs[k], miss, txt),
                    dict(program=progs[k], script=["next"] * j + ["state"], missing=miss, shown=txt))
    if not pc["ok"]:
        V.violation("proof:" + prop, "proof obligations of %s do not check: %s" % (prop, "; ".join(pc["problems"])),
                    dict(theorem_file="coq/Props/%s.v" % prop, problems=pc["problems"]), found_input=False)
    V.coverage = dict(
        obligations=pc["obligations"], discharged=pc["discharged"], supporting_lemmas=pc["supporting_lemmas"],
        checker_cmd="make -C coq Props/%s.vo && coqc -Q coq HV coq/Props/%s.v (Print Assumptions) ; python3 tools/check.py --property %s --tier %s"
                    % (prop, prop, prop, tier),
        trusted_base=C.TRUSTED_BASE, axioms=pc["axioms"], proof_files=pc["files"],
        evaluations=n * 3 + sum(len(t) for t in truths), distinct_nontrivial=len(distinct),
        rule="input-free programs (random, counting loops, exits, an encoding error after output) x command scripts drawn from the whole "
             "vocabulary incl. abbreviations, unknown words, `break N` with N in {0, len-1, len, len+1, huge, non-numeric, signed}, `previous` "
             "at the start, `run` to completion/breakpoint/exit; `hyeong debug --color never FILE` transcript compared exactly with the "
             "rendering of the extracted L1 debugger model, state dumps taken from the library after the same number of steps — and every such "
             "dump must show the selected stack and every non-empty stack with its elements in order (read through the State API); scripts "
             "of at least three commands are non-trivial",
        samples=[dict(program=progs[i][:60], script=scripts[i][:8], transcript=reals[i][1].decode("utf-8", "replace")[-200:]) for i in range(0, n, max(1, n // 5))][:6],
        histogram=dict(hist), property_failures=len(fails))
    V.assumptions = ["programs do not read input (the debugger shares stdin with the program)",
                     "terminal colour and the Ctrl-C handler are not modelled"]
    return V.finish()


def replay(prop, path):
    import json
    r = json.load(open(path))
    C.build_repo_bin()
    d = C.scratch_dir("c11r")
    p = os.path.join(d, "r.hyeong")
    open(p, "w", encoding="utf-8").write(r.get("program", ""))
    print(C.run_hyeong(["debug", p], "".join(l + "\n" for l in r.get("script", [])).encode("utf-8"), timeout=6))
    return 0
