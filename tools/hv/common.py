"""Shared machinery of the checks: builds, evaluator processes, proof obligations, verdict, evidence."""
import hashlib
import json
import os
import re
import subprocess
import sys
import time
from concurrent.futures import ThreadPoolExecutor

VERIF = os.path.dirname(os.path.dirname(os.path.dirname(os.path.abspath(__file__))))
REPO = os.environ.get("HV_REPO", "/repo")
# HV_SANDBOX (a testing aid, never set by the registered commands): run the same checks against another checkout
# (HV_REPO) with build output, evidence and replays under that directory, so that several changes can be tried in parallel
SANDBOX = os.environ.get("HV_SANDBOX")
OUT = SANDBOX or VERIF
BUILD = os.path.join(OUT, "build")
COQ = os.path.join(VERIF, "coq")
TARGET = os.path.join(BUILD, "target")
OCAML_BUILD = os.path.join(VERIF, "build", "ocaml")
DRIVER = os.path.join(OCAML_BUILD, "driver")
HARNESS = os.path.join(TARGET, "debug", "hvharness")
HARNESS_REL = os.path.join(TARGET, "release", "hvharness")
HYEONG = os.path.join(TARGET, "debug", "hyeong")
HYEONG_REL = os.path.join(TARGET, "release", "hyeong")
NCPU = min(16, os.cpu_count() or 4)

ENV = dict(os.environ, CARGO_NET_OFFLINE="true", CARGO_TERM_COLOR="never")

ALLOWED_AXIOMS = set()   # the development is expected to be closed under the global context

TRUSTED_BASE = [
    "Coq 8.16.1 kernel (coqc; vm_compute used, native_compute not used)",
    "axioms: none declared; every property theorem must print 'Closed under the global context'",
    "hand-written L1 model in coq/Model (modelled, tied to /repo by differential execution, not verified against the source)",
    "extraction with ExtrOcamlBasic directives only; OCaml 4.13.1; ocaml/driver.ml",
    "Rust harness crate (harness/), Python orchestrator, generators and oracles (tools/hv)",
]


class BuildError(Exception):
    pass


def sh(cmd, cwd=None, timeout=3600, env=None, check=True, input=None):
    p = subprocess.run(cmd, cwd=cwd, shell=isinstance(cmd, str), stdout=subprocess.PIPE, stderr=subprocess.STDOUT,
                       timeout=timeout, env=env or ENV, input=input)
    out = p.stdout.decode("utf-8", "replace")
    if check and p.returncode != 0:
        raise BuildError("command failed (%d): %s\n%s" % (p.returncode, cmd, out[-4000:]))
    return p.returncode, out


# ---------------------------------------------------------------- builds

def coq_makefile():
    mk = os.path.join(COQ, "Makefile")
    cp = os.path.join(COQ, "_CoqProject")
    if not os.path.exists(mk) or os.path.getmtime(mk) < os.path.getmtime(cp):
        sh("coq_makefile -f _CoqProject -o Makefile", cwd=COQ)


def build_coq(targets=None):
    """Full .vo build (never -vos) of the given targets (default: everything in _CoqProject).
    Returns (ok, log)."""
    coq_makefile()
    tg = " ".join(targets) if targets else ""
    rc, out = sh("timeout 3000 make -j%d %s" % (NCPU, tg), cwd=COQ, check=False, timeout=3100)
    return rc == 0, out


def _newer(src_list, dst):
    if not os.path.exists(dst):
        return True
    t = os.path.getmtime(dst)
    return any(os.path.getmtime(s) > t for s in src_list if os.path.exists(s))


def build_driver():
    """Extract the models and compile the OCaml model evaluator."""
    os.makedirs(OCAML_BUILD, exist_ok=True)
    ok, out = build_coq(["Extract/Extract.vo"])
    if not ok:
        raise BuildError("coq model build failed:\n" + out[-4000:])
    ml = os.path.join(OCAML_BUILD, "model.ml")
    ext_v = os.path.join(COQ, "Extract", "Extract.v")
    ext_vo = os.path.join(COQ, "Extract", "Extract.vo")
    drv_src = os.path.join(VERIF, "ocaml", "driver.ml")
    if _newer([ext_vo, ext_v], ml):
        sh("coqc -Q %s HV %s -o %s/Extract.vo" % (COQ, ext_v, OCAML_BUILD), cwd=OCAML_BUILD)
    if _newer([ml, drv_src], DRIVER):
        sh("cp %s driver.ml && ocamlfind ocamlopt -O2 -package zarith,unix -linkpkg -w -a model.mli model.ml driver.ml -o driver"
           % drv_src, cwd=OCAML_BUILD)


def crate_dir(name):
    """harness/ and numlib/ depend on /repo by path; in sandbox mode a copy pointing at HV_REPO is used"""
    src = os.path.join(VERIF, name)
    if not SANDBOX:
        return src
    dst = os.path.join(SANDBOX, name)
    if not os.path.exists(dst):
        import shutil
        shutil.copytree(src, dst, ignore=shutil.ignore_patterns("target"))
        ct = os.path.join(dst, "Cargo.toml")
        text = open(ct).read().replace('path = "/repo"', 'path = "%s"' % REPO)
        open(ct, "w").write(text)
    return dst


def build_harness(release=False):
    """Rebuild the harness (and with it the hyeong library) from /repo's working tree."""
    cmd = "cargo build --offline --target-dir %s%s" % (TARGET, " --release" if release else "")
    rc, out = sh(cmd, cwd=crate_dir("harness"), check=False, timeout=1800)
    if rc != 0:
        raise BuildError("harness build failed:\n" + out[-4000:])


def build_repo_bin(release=False):
    cmd = "cargo build --offline --manifest-path %s/Cargo.toml --bin hyeong --target-dir %s%s" % (
        REPO, TARGET, " --release" if release else "")
    rc, out = sh(cmd, check=False, timeout=1800)
    if rc != 0:
        raise BuildError("hyeong build failed:\n" + out[-4000:])


# ---------------------------------------------------------------- evaluators

def _big_stack():
    # the extracted model recurses structurally over long lists (large files): give the evaluators the hard stack limit
    import resource
    soft, hard = resource.getrlimit(resource.RLIMIT_STACK)
    try:
        resource.setrlimit(resource.RLIMIT_STACK, (hard, hard))
    except (ValueError, OSError):
        pass


def _run_lines(exe, lines, timeout):
    data = ("\n".join(lines) + "\n").encode("utf-8")
    try:
        p = subprocess.run([exe], input=data, stdout=subprocess.PIPE, stderr=subprocess.PIPE, timeout=timeout, preexec_fn=_big_stack)
    except subprocess.TimeoutExpired as e:
        # an evaluator that does not finish in time breaks the tie between model and code: reported by the caller
        raise BuildError("evaluator %s did not finish %d cases within %d s" % (exe, len(lines), timeout))
    out = p.stdout.decode("utf-8", "replace").split("\n")
    if out and out[-1] == "":
        out.pop()
    if len(out) != len(lines):
        # the evaluator died part-way (abort / stack overflow): mark the rest
        out = out + ["died:rc=%d" % p.returncode] * (len(lines) - len(out))
    return out


def run_sharded(exe, lines, timeout=1200, shards=None):
    """Round-robin sharding (cases of similar cost are generated next to each other)."""
    if not lines:
        return []
    shards = min(shards or NCPU, len(lines))
    chunks = [lines[k::shards] for k in range(shards)]
    with ThreadPoolExecutor(max_workers=shards) as ex:
        res = list(ex.map(lambda c: _run_lines(exe, c, timeout), chunks))
    out = [None] * len(lines)
    for k, r in enumerate(res):
        out[k::shards] = r
    return out


def run_model(lines, timeout=6000):
    return run_sharded(DRIVER, lines, timeout)


def timed_out(*answers):
    """an evaluator gave up on the case within its per-case time limit (values that double in size with every round of a loop
    cannot be computed to the step budget by the model or by the code): the case is skipped"""
    return any(a == "timeout" or a.endswith("END:timeout") or a.startswith("child:timeout") for a in answers if isinstance(a, str))


def run_impl(lines, timeout=3000, release=False):
    return run_sharded(HARNESS_REL if release else HARNESS, lines, timeout)


# ---------------------------------------------------------------- proof obligations

FORBIDDEN = re.compile(r"\b(Admitted|admit|Axiom|Axioms|Parameter|Parameters|Conjecture|Conjectures|Hypothesis|Hypotheses|Variable|Variables)\b|Unset\s+Guard|bypass_check|type-in-type|impredicative-set|Admit\s+Obligations|Unset\s+Universe\s+Checking|Unset\s+Positivity")


def strip_comments(src):
    out, depth, i = [], 0, 0
    while i < len(src):
        if src.startswith("(*", i):
            depth += 1
            i += 2
        elif src.startswith("*)", i) and depth > 0:
            depth -= 1
            i += 2
        else:
            if depth == 0:
                out.append(src[i])
            i += 1
    return "".join(out)


def coq_deps(vfile):
    """Transitive .v dependencies (inside coq/) of a file, via coqdep."""
    seen, todo = set(), [vfile]
    while todo:
        f = todo.pop()
        if f in seen:
            continue
        seen.add(f)
        rc, out = sh("coqdep -Q . HV %s" % f, cwd=COQ, check=False)
        for m in re.finditer(r"(\S+)\.vo\b", out.split(":", 1)[1] if ":" in out else ""):
            d = m.group(1) + ".v"
            if os.path.exists(os.path.join(COQ, d)):
                todo.append(d)
    return sorted(seen)


def hygiene(files):
    """Forbidden vernacular in the given files (comments stripped).  Section-local Hypothesis/Variable are
    allowed only inside a Section ... End block."""
    bad = []
    for f in files:
        src = strip_comments(open(os.path.join(COQ, f), encoding="utf-8").read())
        depth = 0
        for ln, line in enumerate(src.split("\n"), 1):
            if re.match(r"\s*Section\b", line):
                depth += 1
            if re.match(r"\s*End\b", line) and depth > 0:
                depth -= 1
            for m in FORBIDDEN.finditer(line):
                w = m.group(0)
                if depth > 0 and w in ("Hypothesis", "Hypotheses", "Variable", "Variables"):
                    continue
                bad.append("%s:%d: %s" % (f, ln, w))
    return bad


def pins_path():
    return os.path.join(COQ, "Props", "PINS.json")


def statement_hash(vfile):
    src = strip_comments(open(os.path.join(COQ, vfile), encoding="utf-8").read())
    stmts = re.findall(r"(?:Theorem|Lemma|Corollary|Example)\s+.*?\.\s*Proof\.", src, re.S)
    norm = "\n".join(re.sub(r"\s+", " ", s) for s in stmts)
    return hashlib.sha256(norm.encode()).hexdigest(), len(stmts)


def proof_check(prop, thorough=None):
    """Build Props/<prop>.vo with all it depends on; check hygiene, pinned statements, assumptions.
    In the thorough tier the compiled files are re-checked by the independent checker coqchk.
    Returns dict(ok, obligations, discharged, lemmas, problems[], axioms{})."""
    if thorough is None:
        thorough = os.environ.get("VERIF_TIER") == "thorough" or "thorough" in sys.argv
    vfile = "Props/%s.v" % prop
    res = dict(ok=False, obligations=0, discharged=0, supporting_lemmas=0, problems=[], axioms={}, files=[])
    if not os.path.exists(os.path.join(COQ, vfile)):
        res["problems"].append("missing " + vfile)
        return res
    ok, log = build_coq([vfile + "o"])
    if not ok:
        m = re.findall(r'File "([^"]+)", line (\d+)[^\n]*\n(Error:[^\n]*(?:\n[^\n]+){0,3})', log)
        res["problems"].append("proof build failed: " + ("; ".join("%s:%s %s" % x for x in m) or log[-1500:]))
        return res
    deps = coq_deps(vfile)
    res["files"] = deps
    bad = hygiene(deps)
    if bad:
        res["problems"].append("forbidden vernacular: " + ", ".join(bad[:10]))
    h, n = statement_hash(vfile)
    res["obligations"] = n
    pins = json.load(open(pins_path())) if os.path.exists(pins_path()) else {}
    if pins.get(prop) != h:
        res["problems"].append("statements of %s differ from the pinned ones (Props/PINS.json)" % vfile)
    # supporting lemmas in the dependency closure
    cnt = 0
    for f in deps:
        if f == vfile:
            continue
        src = strip_comments(open(os.path.join(COQ, f), encoding="utf-8").read())
        cnt += len(re.findall(r"^\s*(?:Theorem|Lemma|Corollary|Example|Fact|Remark)\s", src, re.M))
    res["supporting_lemmas"] = cnt
    # re-run coqc on the property file to capture Print Assumptions
    os.makedirs(os.path.join(BUILD, "props"), exist_ok=True)
    rc, out = sh("coqc -Q . HV %s -o %s/%s.vo" % (vfile, os.path.join(BUILD, "props"), prop), cwd=COQ, check=False,
                 timeout=1800)
    if rc != 0:
        res["problems"].append("coqc %s failed: %s" % (vfile, out[-800:]))
        return res
    closed = len(re.findall(r"Closed under the global context", out))
    axioms = re.findall(r"^Axioms:\s*\n((?:.+\n?)+?)(?=\n\S|\Z)", out, re.M)
    src = strip_comments(open(os.path.join(COQ, vfile), encoding="utf-8").read())
    n_print = len(re.findall(r"Print\s+Assumptions", src))
    if n_print < n:
        res["problems"].append("%d theorems but only %d Print Assumptions in %s" % (n, n_print, vfile))
    if axioms:
        names = set()
        for blk in axioms:
            for m in re.finditer(r"^(\S+)\s*:", blk, re.M):
                names.add(m.group(1))
        extra = names - ALLOWED_AXIOMS
        res["axioms"] = sorted(names)
        if extra:
            res["problems"].append("axioms not in the allow-list: " + ", ".join(sorted(extra)))
    elif closed < n_print:
        res["problems"].append("Print Assumptions output not understood (%d closed of %d)" % (closed, n_print))
    if thorough and not res["problems"]:
        rc, out = sh("timeout 1500 coqchk -o -silent -Q . HV HV.Props.%s" % prop, cwd=COQ, check=False, timeout=1600)
        res["coqchk"] = "Axioms: <none>" in out and rc == 0
        if not res["coqchk"]:
            res["problems"].append("coqchk does not accept the development or reports axioms: " + out[-600:])
    res["discharged"] = n if not res["problems"] else 0
    res["ok"] = not res["problems"]
    return res


# ---------------------------------------------------------------- findings, verdict, evidence

def known_findings():
    p = os.path.join(VERIF, "known_findings.json")
    if not os.path.exists(p):
        return []
    return json.load(open(p))["findings"]


class Verdict:
    def __init__(self, prop, tier, seed):
        self.prop, self.tier, self.seed = prop, tier, seed
        self.t0 = time.time()
        self.violations = []      # (identity, what, replay_payload, found_input:bool)
        self.known = []
        self.coverage = {}
        self.assumptions = []

    def violation(self, identity, what, payload, found_input=True):
        for k in known_findings():
            if k.get("property") == self.prop and k.get("status") == "known" and k.get("identity") == identity:
                if identity not in [x[0] for x in self.known]:
                    self.known.append((identity, k.get("what", what)))
                return
        if identity in [v[0] for v in self.violations]:
            return
        self.violations.append((identity, what, payload, found_input))

    def finish(self, level="proof"):
        os.makedirs(os.path.join(OUT, "evidence"), exist_ok=True)
        os.makedirs(os.path.join(OUT, "replays"), exist_ok=True)
        for identity, what in self.known:
            print("KNOWN-FINDING: property=%s %s [%s]" % (self.prop, what, identity))
        for identity, what, payload, found in self.violations:
            h = hashlib.sha256(identity.encode()).hexdigest()[:12]
            path = os.path.join(OUT, "replays", "%s-%s.json" % (self.prop, h))
            json.dump(dict(property=self.prop, identity=identity, what=what, found_failing_input=found, **payload),
                      open(path, "w"), indent=1, ensure_ascii=False)
            print("VIOLATION property=%s replay=%s%s" % (self.prop, path, "" if found else " no-failing-input-found"))
        ev = dict(property_id=self.prop, tier=self.tier, seed=self.seed, level=level, coverage=self.coverage,
                  assumptions=self.assumptions, wall_s=round(time.time() - self.t0, 2),
                  violations=len(self.violations))
        json.dump(ev, open(os.path.join(OUT, "evidence", "%s.json" % self.prop), "w"), indent=1, ensure_ascii=False)
        sys.stdout.flush()
        return 1 if self.violations else 0


# ---------------------------------------------------------------- the hyeong binary

def scratch_dir(name):
    d = os.path.join(BUILD, "scratch", name)
    os.makedirs(d, exist_ok=True)
    return d


def run_hyeong(args, stdin_bytes=b"", timeout=10, release=False, cwd=None):
    """Run the freshly built binary. Returns (exit_class, stdout_bytes, stderr_bytes); exit_class is
    'exit<N>' | 'signal<N>' | 'timeout'."""
    exe = HYEONG_REL if release else HYEONG
    try:
        p = subprocess.run([exe, "--color", "never"] + list(args), input=stdin_bytes, stdout=subprocess.PIPE,
                           stderr=subprocess.PIPE, timeout=timeout, cwd=cwd, env=ENV)
    except subprocess.TimeoutExpired as e:
        return "timeout", e.stdout or b"", e.stderr or b""
    rc = p.returncode
    return ("exit%d" % rc if rc >= 0 else "signal%d" % (-rc)), p.stdout, p.stderr


def split_run_stdout(out):
    """program output = what follows the '==> running code' log line"""
    marker = b"==> running code\n"
    i = out.find(marker)
    if i < 0:
        return None
    return out[i + len(marker):]


def pmap(fn, items, workers=None):
    with ThreadPoolExecutor(max_workers=workers or NCPU) as ex:
        return list(ex.map(fn, items))


# ---------------------------------------------------------------- compiled programs (C03, C14)

TARGET_NUM = os.path.join(BUILD, "target-num")


def build_numlib():
    """the number-only build of /repo that emitted programs link against"""
    rc, out = sh("cargo build --offline --target-dir %s" % TARGET_NUM, cwd=crate_dir("numlib"), check=False, timeout=1800)
    if rc != 0:
        raise BuildError("number-only library build failed:\n" + out[-4000:])
    deps = os.path.join(TARGET_NUM, "debug", "deps")
    rl = sorted([f for f in os.listdir(deps) if f.startswith("libhyeong-") and f.endswith(".rlib")],
                key=lambda f: os.path.getmtime(os.path.join(deps, f)))
    return os.path.join(deps, rl[-1])


def rustc_program(src_text, out_path, rlib):
    """returns (ok, compiler output)"""
    src = out_path + ".rs"
    with open(src, "w", encoding="utf-8") as fh:
        fh.write(src_text)
    rc, out = sh(["rustc", "--edition", "2018", "-A", "warnings", "--extern", "hyeong=" + rlib, "-L", "dependency=" + os.path.dirname(rlib),
                  "-C", "debuginfo=0", "-o", out_path, src], check=False, timeout=300)
    return rc == 0, out


def run_exe(path, stdin_bytes=b"", timeout=5):
    try:
        p = subprocess.run([path], input=stdin_bytes, stdout=subprocess.PIPE, stderr=subprocess.PIPE, timeout=timeout)
    except subprocess.TimeoutExpired as e:
        return "timeout", e.stdout or b"", e.stderr or b""
    rc = p.returncode
    return ("exit%d" % rc if rc >= 0 else "signal%d" % (-rc)), p.stdout, p.stderr
