"""C04 and C08: proof obligations + correspondence for the parser layer."""
import os
import random
import subprocess
import tempfile
from collections import Counter

from . import common as C
from . import parsegen as P

CORPUS = ["?형", "형.?♥?", "하앙!💕💖!", "혀어 어엉... ... 흣... . \n하앙!💕💖!", "하앙 흐 혀엉..♡!?", "", "흐 하 혀", "...?!♥", "혀엉엉",
          "혀하앙엉", "형…⋯⋮.", "형?.!.♥.", "\n\n 형\n\t항", "하흐읏앗", "혀\n어\n엉", "♥형♥♥!♥?♡", "흑…?♥!♡?!!"]


def shrink_text(text, bad_fn, budget=300):
    cur = text
    changed = True
    while changed and budget > 0 and len(cur) > 1:
        changed = False
        n = len(cur)
        step = max(1, n // 2)
        while step >= 1 and budget > 0:
            i = 0
            while i < len(cur) and budget > 0:
                cand = cur[:i] + cur[i + step:]
                budget -= 1
                if cand != cur and bad_fn(cand):
                    cur = cand
                    changed = True
                else:
                    i += step
            step //= 2
    return cur


def classify(text, impl_line, want_line):
    """coarse identity: which field of which kind of command differs"""
    a = impl_line.split("|") if impl_line else []
    b = want_line.split("|") if want_line else []
    if len(a) != len(b):
        return "command-count"
    for x, y in zip(a, b):
        fx, fy = x.split(","), y.split(",")
        names = ["kind", "syllables", "dots", "line", "column", "area", "raw"]
        for nme, u, v in zip(names, fx, fy):
            if u != v:
                first = next((c for c in text if c in P.SINGLE + P.START), "")
                pre = text[:text.index(first)] if first else text
                if nme == "area" and any(c in "?!" + P.HEARTS for c in pre):
                    return "area:area-characters-before-first-command"
                return nme
    return "same"


def check_listing(rng, V, n_files, hist):
    """C08 clause 3: the `check` listing determines every command: read it back and compare with parse()."""
    C.build_repo_bin()
    bad = 0
    tmp = tempfile.mkdtemp(prefix="hvcheck", dir=C.BUILD)
    samples = []
    for i in range(n_files):
        cmds = [P.gen_cmd(rng) for _ in range(rng.randint(1, 6))]
        text, exp = P.render(rng, cmds, noisy=rng.random() < 0.7)
        if 8 <= i < 12:
            # command counts where the width of the index column changes
            ncmd = rng.choice([[10, 11], [100, 101], [1000, 1001], [9, 99, 999, 1002]][i - 8])
            text = " ".join(P.render(rng, [P.gen_cmd(rng)], noisy=False)[0] for _ in range(ncmd))
        if 4 <= i < 8:
            # deep and wide area trees (up to 60 `?` groups of up to 40 `!` slots): the listing must still determine them
            cmds = [(rng.randrange(6), rng.choice([1, 2, 3]), rng.choice([0, 1, 5]), P.gen_tree(rng, big=True)) for _ in range(rng.randint(1, 3))]
            text, exp = P.render(rng, cmds, noisy=False)
        if i < 4:
            # files larger than the usual buffer sizes (4, 8, 64 KiB), multi-byte characters at every offset of a block boundary
            ncmd = [700, 1500, 1500, 12000][i]
            text = " " * (i % 3) + " ".join(P.render(rng, [P.gen_cmd(rng)], noisy=False)[0] for _ in range(ncmd))
            text += rng.choice(["", "\n" + rng.choice(P.KOREAN_PROSE)])
        path = os.path.join(tmp, "t%d.hyeong" % i)
        open(path, "w", encoding="utf-8").write(text)
        p = subprocess.run([C.HYEONG, "--color", "never", "check", path], stdout=subprocess.PIPE, stderr=subprocess.PIPE, timeout=60)
        out = p.stdout.decode("utf-8", "replace").split("\n")
        lib = C.run_impl([P.wire(text)])[0]
        if lib == "panic" or lib.startswith("died"):
            V.violation("listing:panic", "rendering the commands of %r panics" % text, dict(file_text=text, parsed=lib))
            continue
        want = []
        for c in (lib.split("|") if lib else []):
            f = c.split(",")
            want.append((int(f[0]), int(f[1]), int(f[2]), int(f[3]), int(f[4]), "".join(chr(int(x)) for x in f[5].split("."))))
        got = []
        ok = p.returncode == 0
        for ln in out:
            if " | " not in ln:
                continue
            try:
                idx, rest = ln.split(" | ", 1)
                locpart, cmdpart = rest.split("  ", 1)
                fn, line, col = locpart.rsplit(":", 2)
                cmdpart = cmdpart.strip(" ")
                head, area = cmdpart.split(" ", 1)
                kch, syl, dots = head.split("_")
                got.append((P.SINGLE.index(kch), int(syl), int(dots), int(line), int(col), P.read_display(area)))
            except Exception:
                ok = False
        hist["listing-files"] += 1
        # correspondence with the listing model (Model/Listing.v): the rows of the binary's output against the model's text;
        # a different layout alone is not a violation as long as the listing still determines the commands (read back above)
        mt = C.run_model(["listing %s %s" % (",".join(str(ord(c)) for c in "t%d.hyeong" % i), ",".join(str(ord(c)) for c in text))])[0]
        if mt.startswith("ok:"):
            model_rows = "".join(chr(int(x)) for x in mt[3:].split(".")) if mt[3:] else ""
            real_rows = "".join(l + "\n" for l in out if " | " in l)
            hist["listing-model-agrees" if model_rows == real_rows else "listing-layout-differs-from-model"] += 1
        else:
            hist["listing-model-" + mt[:12]] += 1
            if ok and got == want:
                V.violation("correspondence:listing", "the listing model (coq/Model/Listing.v) answers %r on %r while `hyeong check` prints a listing" % (mt, text),
                            dict(correspondence="L0 app/check.rs print_un_opt_codes vs L1 coq/Model/Listing.v", file_text=text, model=mt), found_input=False)
        if not ok or got != want:
            bad += 1
            V.violation("listing:" + classify_listing(got, want), "`hyeong check` listing of %r does not determine the parsed commands: read back %r, parsed %r"
                        % (text, got, want), dict(file_text=text, listing=out, parsed=lib))
        elif len(samples) < 2:
            samples.append(dict(text=text, listing=[l for l in out if " | " in l]))
    subprocess.run(["rm", "-rf", tmp])
    return samples


def classify_listing(got, want):
    if len(got) != len(want):
        return "line-count"
    for g, w in zip(got, want):
        for nme, u, v in zip(["kind", "syllables", "dots", "line", "column", "area"], g, w):
            if u != v:
                return nme
    return "same"


def source_tables():
    """the character tables as written in the source (literal strings/arrays of src/core/parse.rs, src/core/area.rs, src/number/num.rs)"""
    import re
    out = {}
    try:
        ps = open(os.path.join(C.REPO, "src/core/parse.rs"), encoding="utf-8").read()
        m = re.search(r"COMMANDS: &\[char\] = &\[(.*?)\];", ps, re.S)
        out["single"] = [ord(c) for c in re.findall(r"'(.)'", m.group(1))] if m else None
        m = re.search(r"HEARTS: &\[char\] = &\[(.*?)\];", ps, re.S)
        out["hearts"] = [ord(c) for c in re.findall(r"'(.)'", m.group(1))] if m else None
        ns = open(os.path.join(C.REPO, "src/number/num.rs"), encoding="utf-8").read()
        m = re.search(r's == \*"([^"]+)"', ns)
        out["nan"] = [ord(c) for c in m.group(1)] if m else None
    except OSError:
        pass
    return out


def table_cases(hist):
    """static tie: the tables of coq/Model/Chars.v against the tables in the source; characters on which they differ are
    fed to the differential run so that a changed table yields a concrete failing text"""
    line = C.run_model(["tables"])[0]
    model = dict((k, [int(x) for x in v.split(".")] if v else []) for k, v in (f.split("=", 1) for f in line.split("|")))
    src = source_tables()
    extra = []
    for k in ("single", "hearts", "nan"):
        if src.get(k) is None:
            continue
        hist["table:" + k] += 1
        if src[k] != model.get(k):
            diff = set(src[k]) ^ set(model.get(k, []))
            hist["table-differs:" + k] += 1
            for cp in sorted(diff):
                ch = chr(cp)
                extra += ["형." + ch, "형.!" + ch + "?" + ch, "혀" + ch + "엉..", ch + "형", "하" + ch + "앙" + ch]
    return extra


def run(prop, tier, seed):
    V = C.Verdict(prop, tier, seed)
    rng = random.Random(seed)
    pc = C.proof_check(prop)
    C.build_driver()
    C.build_harness()
    quick = tier == "quick"
    n_render, n_unst, n_mal, n_big = (2500, 1200, 800, 6) if quick else (60000, 30000, 20000, 60)
    hist = Counter()
    cases = []   # (tag, text, expected_line or None)
    for t in CORPUS + table_cases(hist):
        cases.append(("corpus", t, None))
    for _ in range(n_render):
        cmds = [P.gen_cmd(rng) for _ in range(rng.choice([0, 1, 2, 3, 4, 6]))]
        noisy = rng.random() < 0.8
        text, exp = P.render(rng, cmds, noisy=noisy)
        cases.append(("rendered-noisy" if noisy else "rendered-plain", text, P.expected_line(exp)))
    for _ in range(n_big):
        cmds = [P.gen_cmd(rng, big=True) for _ in range(rng.randint(1, 3))]
        text, exp = P.render(rng, cmds, noisy=False)
        cases.append(("rendered-large", text, P.expected_line(exp)))
    # area chains of 4096 operators
    for ops in (["?"] * 4096, ["!"] * 4096, ["?", "!"] * 2048):
        text = "형." + "".join(op + rng.choice(P.HEARTS + "_").replace("_", "") for op in ops)
        cases.append(("chain-4096", text, None))
    # programs with plain Korean prose around them (comments): start syllables after the last ending syllable, endings, fillers
    for _ in range(max(40, n_unst // 10)):
        cmds = [P.gen_cmd(rng) for _ in range(rng.choice([0, 1, 2, 3]))]
        text, _ = P.render(rng, cmds, noisy=rng.random() < 0.3)
        pre = rng.choice(["", "", rng.choice(P.KOREAN_PROSE) + rng.choice([" ", "\n"])])
        post = rng.choice(["", rng.choice([" ", "\n", " # "]) + rng.choice(P.KOREAN_PROSE)])
        cases.append(("prose", pre + text + post + rng.choice(["", "\n"]), None))
    for _ in range(n_unst):
        cases.append(("unstructured", P.gen_unstructured(rng, rng.choice([1, 3, 8, 20, 60])), None))
    for _ in range(n_mal):
        cases.append(("malformed", P.gen_malformed(rng, rng.choice([1, 5, 20, 80])), None))
    lines = [P.wire(t) for _, t, _ in cases]
    l0 = C.run_impl(lines)
    l1 = C.run_model(lines)
    l2 = C.run_model([P.wire(t, "parsespec") for _, t, _ in cases])
    re0 = C.run_impl([P.wire(t, "reparse") for _, t, _ in cases]) if prop == "C08" else None
    distinct = set()
    corr = []
    propfail = []
    for k, ((tag, text, exp), a, b, c) in enumerate(zip(cases, l0, l1, l2)):
        hist[tag] += 1
        ncmd = a.count("|") + 1 if a else 0
        hist["commands"] += ncmd
        if ncmd >= 1 and len(text) >= 3:
            distinct.add(text)
        want = exp if exp is not None else (P.strip_display(c) if not c.startswith("INVALID") else None)
        if c.startswith("INVALID"):
            corr.append((text, a, "spec decomposition invalid"))
        if a == "panic" or a.startswith("died"):
            propfail.append((text, a, "no panic", "panic"))
        elif want is not None and P.strip_display(a) != want:
            propfail.append((text, P.strip_display(a), want, "grammar"))
        elif exp is not None and P.strip_display(c) != exp:
            corr.append((text, P.strip_display(c), "spec differs from by-construction expectation " + exp))
        elif a != b:
            corr.append((text, a, b))
        if re0 is not None:
            r = re0[k]
            if r == "panic" or "#" not in r or r.split("#")[0] != r.split("#")[1]:
                propfail.append((text, r, "same commands on re-parsing the reported source texts", "reparse"))
    seen = set()
    for text, a, want, kind in propfail[:60]:
        if kind == "grammar":
            def bad(t):
                x = C.run_impl([P.wire(t)])[0]
                y = C.run_model([P.wire(t, "parsespec")])[0]
                return P.strip_display(x) != P.strip_display(y)
            small = shrink_text(text, bad)
            x = P.strip_display(C.run_impl([P.wire(small)])[0])
            y = P.strip_display(C.run_model([P.wire(small, "parsespec")])[0])
            ident = "parse:" + classify(small, x, y)
            what = "parse(%r) gives %s but the grammar defines %s" % (small, x, y)
        elif kind == "reparse":
            def bad(t):
                r = C.run_impl([P.wire(t, "reparse")])[0]
                return r == "panic" or "#" not in r or r.split("#")[0] != r.split("#")[1]
            small = shrink_text(text, bad)
            r = C.run_impl([P.wire(small, "reparse")])[0]
            pre = small[:min([small.index(c) for c in small if c in P.SINGLE + P.START] or [len(small)])]
            ident = "reparse:" + ("area-characters-before-first-command" if any(c in "?!" + P.HEARTS for c in pre) else "other")
            what = "re-parsing the concatenated raw texts of parse(%r) changes the commands: %s" % (small, r)
            x, y = r, ""
        else:
            small, x, y = text, a, want
            ident = "parse:panic"
            what = "parse(%r) panics" % text
        if ident in seen:
            continue
        seen.add(ident)
        V.violation(ident, what, dict(text=small, text_codepoints=[ord(c) for c in small], impl=x, spec=y, original_text=text))
    if corr and not propfail:
        text, a, b = corr[0]
        V.violation("correspondence:" + prop, "parser model/implementation correspondence no longer checks on %r: impl=%s model=%s" % (text, a, b),
                    dict(correspondence="L0 parse::parse vs L1 coq/Model/Parse.v vs L2 coq/Spec/Grammar.v", text=text, impl=a, model=b,
                         disagreements=len(corr)), found_input=False)
    samples = [dict(text=cases[i][1][:120], tag=cases[i][0], result=l0[i][:200]) for i in range(min(len(CORPUS), len(cases) - 1), len(cases), max(1, len(cases) // 6))][:8]
    if prop == "C08":
        samples += check_listing(rng, V, 40 if quick else 600, hist)
    else:
        # C04 through the tool: files (among them some larger than any read buffer) parsed by `hyeong check` give the commands
        # the library parser — and the grammar — give for their text
        samples += check_listing(rng, V, 12 if quick else 60, hist)
    if not pc["ok"]:
        V.violation("proof:" + prop, "proof obligations of %s do not check: %s" % (prop, "; ".join(pc["problems"])),
                    dict(theorem_file="coq/Props/%s.v" % prop, problems=pc["problems"]), found_input=False)
    V.coverage = dict(
        obligations=pc["obligations"], discharged=pc["discharged"], supporting_lemmas=pc["supporting_lemmas"],
        checker_cmd="make -C coq Props/%s.vo && coqc -Q coq HV coq/Props/%s.v (Print Assumptions) ; python3 tools/check.py --property %s --tier %s"
                    % (prop, prop, prop, tier),
        trusted_base=C.TRUSTED_BASE, axioms=pc["axioms"], proof_files=pc["files"],
        evaluations=len(cases) * (4 if prop == "C08" else 3), distinct_nontrivial=len(distinct),
        rule="texts rendered from random command lists with noise from each ignorable class (expected result known by construction), "
             "unstructured texts over the significant alphabet, malformed/random Unicode, 4096-operator chains; each parsed by the real "
             "parser, the extracted L1 model and the extracted L2 grammar (abstract o decompose); distinct texts with at least one command "
             "and three characters count as non-trivial",
        samples=samples, histogram=dict(hist), correspondence_disagreements=len(corr), property_failures=len(propfail))
    V.assumptions = ["the L1 parser model and the L2 grammar are hand-written; their tie to /repo is the differential run reported here",
                     "texts are valid Unicode scalar sequences (a Rust String cannot hold anything else)"]
    return V.finish()


def replay(prop, path):
    import json
    r = json.load(open(path))
    C.build_driver()
    C.build_harness()
    t = r.get("text", "")
    print("text  :", repr(t))
    print("impl  :", C.run_impl([P.wire(t)])[0])
    print("model :", C.run_model([P.wire(t)])[0])
    print("spec  :", C.run_model([P.wire(t, "parsespec")])[0])
    return 0
