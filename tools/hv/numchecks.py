"""C05, C06, C07, C09: proof obligations + correspondence for the number layer."""
import random
from collections import Counter

from . import common as C
from . import numgen as G

BIG_OPS2 = ["add", "sub", "mul", "div", "rem", "addas", "subas", "mulas", "divas", "remas", "cmp", "eq", "gcd"]


def corpus_exprs(prop):
    L, I, U = (lambda v: G.lit(v)), (lambda v: ("I", v)), (lambda v: ("U", v))
    nat = lambda p, q: ("N", L(p), L(q))
    c = {
        "C05": [("new", I((1 << 32) + 5)), ("new", I(-(1 << 63))), ("new", I((1 << 63) - 1)), ("new", I(-(1 << 32))),
                ("sub", L(1 << 64), L(1)), ("add", L((1 << 64) - 1), L(1)), ("mul", L((1 << 64) - 1), L((1 << 64) - 1)),
                ("div", L((1 << 96) - 1), L((1 << 32) + 1)), ("rem", L(-(1 << 70)), L(12345)),
                ("sub", L(5), L(5)), ("add", L(-5), L(5)), ("gcd", L(18), L(-24)), ("gcd", L(0), L(7)),
                ("cmp", L(-(1 << 40)), L(-(1 << 40) - 1))],
        "C06": [("nadd", nat(-1, 2), nat(0, 1)), ("nadd", nat(1, 2), nat(-1, 2)), ("nmul", nat(-2, 3), nat(3, -4)),
                ("nflip", nat(-3, 2)), ("nflip", nat(0, 1)), ("nneg", ("nan",)), ("nflip", ("nan",)),
                ("nadd", ("nan",), nat(1, 1)), ("nnew", I(-3), I(6)), ("floor", nat(7, 2)),
                ("neq", ("nadd", nat(1, 2), nat(1, 2)), nat(1, 1)), ("ndisp", nat(6, -4)), ("nispos", nat(-1, 2)),
                ("nispos", ("nadd", nat(-1, 2), nat(0, 1)))],
        "C07": [("ncmp", nat(5, 1), nat(7, 1)), ("ncmp", nat(1, 2), nat(0, 1)), ("ncmp", nat(1, 2), nat(1, 3)),
                ("ncmp", nat(-1, 2), nat(1, 3)), ("ncmp", ("nan",), nat(1, 1)), ("ncmp", nat(2, 4), nat(1, 2)),
                ("ncmp", nat(7, 1), nat(5, 1)), ("ncmp", nat(-7, 3), nat(-5, 2))],
        "C09": [("tsb", L(-255), U(16)), ("tsb", L(0), U(2)), ("fsb", ("tsb", L(1 << 70), U(36)), U(36)),
                ("nfs", ("ndisp", nat(-7, 3))), ("nfs", ("ndisp", ("nan",))), ("nfs", ("ndisp", nat(1 << 40, 1))),
                ("tsb", L(5), U(37)), ("tsb", L(5), U(0)), ("fsb", ("T", "12!"), U(10))],
    }
    return [("corpus", e) for e in c[prop]]


def gen_c05(rng, n, maxlen):
    out = []
    for _ in range(n):
        r = rng.random()
        if r < 0.82:
            op = rng.choice(BIG_OPS2)
            if op == "gcd" and n > 20000 and rng.random() < 0.85:
                op = rng.choice(["add", "sub", "mul", "cmp"])          # Euclid on the limb-level model is slow: cap its share in big runs
            a, b = G.gen_big_pair(rng, maxlen)
            if op in ("div", "rem", "divas", "remas") and G.big_value(b) == 0:
                b = ("L", b[1], [rng.randint(1, 7)])
            lim = 2 if op == "gcd" else (6 if n <= 20000 else 4)       # the extracted limb-level model is slow on long division chains
            if op in ("div", "rem", "divas", "remas", "gcd") and (len(a[2]) > lim or len(b[2]) > lim):
                a = ("L", a[1], a[2][:lim])
                b = ("L", b[1], (b[2][:lim] if G.limbs_val(b[2][:lim]) else [3]))
            out.append((op, (op, a, b)))
        elif r < 0.9:
            op = rng.choice(["neg", "minus", "is_zero", "is_pos"])
            out.append((op, (op, G.gen_big(rng, maxlen))))
        else:
            v = rng.choice([0, 1, -1, (1 << 31), -(1 << 31), (1 << 32), (1 << 32) - 1, -(1 << 32), (1 << 63) - 1,
                            -(1 << 63), rng.randint(-(1 << 63), (1 << 63) - 1), rng.randint(-(1 << 33), 1 << 33)] + G.MACHINE_EDGES)
            out.append(("new", ("new", ("I", v))))
    return out


def gen_c06(rng, n, maxlen):
    out = []
    for _ in range(n):
        r = rng.random()
        if r < 0.55:
            op = rng.choice(["nadd", "nmul", "naddas", "nmulas"])
            a, b = G.gen_rat_pair(rng, maxlen)
            out.append((op, (op, a, b)))
        elif r < 0.8:
            op = rng.choice(["nneg", "nminus", "nflip", "nispos", "nisnan", "ndisp", "floor"])
            a = G.gen_rat(rng, maxlen)
            out.append((op, (op, a)))
        elif r < 0.9:
            # structural equality of two computations of the same value
            a, b = G.gen_rat_pair(rng, maxlen)
            out.append(("neq-comm", ("neq", ("nadd", a, b), ("nadd", b, a))))
            out.append(("neq", ("neq", a, b)))
        else:
            u = rng.choice([0, 1, -1, 6, -6, rng.randint(-50, 50), rng.randint(-(1 << 40), 1 << 40), rng.choice(G.MACHINE_EDGES)])
            d = rng.choice([0, 1, 2, 3, 4, 6, rng.randint(1, 50), rng.randint(1, 1 << 40), min(abs(rng.choice(G.MACHINE_EDGES)), (1 << 63) - 1)])   # Num::new casts `down as isize`: below 2^63 only
            if rng.random() < 0.15:
                # the `down as isize` cast (C06_new_any): denominators from 2^63 on wrap; model and code are compared,
                # the mathematical oracle is undefined there (latent defect outside the property, DESIGN 8.4)
                d = rng.choice([1 << 63, (1 << 63) + 1, (1 << 64) - 1, (1 << 64) - 2, (1 << 63) + rng.randint(0, 1 << 62)])
            out.append(("nnew", ("nnew", ("I", u), ("I", d))))
    return out


def gen_c07(rng, n, maxlen):
    out = []
    for _ in range(n):
        a, b = G.gen_rat_pair(rng, maxlen)
        op = rng.choice(["ncmp", "ncmp", "ncmp", "neq"])
        if rng.random() < 0.08:
            # a value built from machine integers against the same value (or a neighbour) written as a literal
            u, d = rng.choice(G.MACHINE_EDGES), min(abs(rng.choice(G.MACHINE_EDGES[::3] + [1, 1, 1])) or 1, (1 << 63) - 1)
            a = ("nnew", ("I", u), ("I", d))
            b = ("N", G.lit(u + rng.choice([0, 0, 1, -1])), G.lit(d))
            if rng.random() < 0.5:
                # Num::from_num (what the interpreter compares a popped value with: the command's count)
                a = ("fromnum", ("I", u))
                b = rng.choice([("N", G.lit(u + rng.choice([0, 0, 1, -1])), G.lit(1)), ("nnew", ("I", u), ("I", 1)),
                                ("N", G.lit(2 * u + rng.choice([0, 1])), G.lit(2))])
            if rng.random() < 0.5:
                a, b = b, a
        out.append((op, (op, a, b)))
    return out


def gen_c09(rng, n, maxlen):
    out = []
    for _ in range(n):
        r = rng.random()
        if r < 0.35:
            a = G.gen_big(rng, maxlen)
            base = rng.randint(2, 36)
            out.append(("tsb", ("tsb", a, ("U", base))))
        elif r < 0.7:
            a = G.gen_big(rng, maxlen)
            base = rng.randint(2, 36)
            out.append(("roundtrip", ("fsb", ("tsb", a, ("U", base)), ("U", base))))
        elif r < 0.9:
            a = G.gen_rat(rng, min(maxlen, 3))
            out.append(("num-roundtrip", ("nfs", ("ndisp", a))))
        elif r < 0.93:
            out.append(("base-range", ("tsb", G.gen_big(rng, 2), ("U", rng.choice([0, 37, 100])))))
        elif r < 0.96:
            s = "".join(rng.choice("0123456789ABCXYZ!az -") for _ in range(rng.randint(0, 6)))
            out.append(("fsb-text", ("fsb", ("T", s), ("U", rng.choice([2, 10, 16, 36])))))
        else:
            # any text of accepted characters (C09_from_string_any_text): leading zeros, digits at or above the base,
            # every base 1..36, optional minus, long bodies (several limbs); sometimes one foreign character
            body = "".join(rng.choice("0123456789ABCDEFGHIJKLMNOPQRSTUVWXYZ") for _ in range(rng.choice([0, 1, 2, 5, 9, 10, 20, 40])))
            if rng.random() < 0.4:
                body = "0" * rng.randint(1, 3) + body
            if rng.random() < 0.15:
                k = rng.randint(0, len(body))
                body = body[:k] + rng.choice("az/@[`:+_. \u00e9\uff11") + body[k:]
            s = ("-" if rng.random() < 0.4 else "") + body
            out.append(("fsb-anytext", ("fsb", ("T", s), ("U", rng.randint(1, 36)))))
    return out


GENS = {"C05": gen_c05, "C06": gen_c06, "C07": gen_c07, "C09": gen_c09}
SIZES = {  # (quick n, quick maxlen, thorough n, thorough maxlen)
    "C05": (12000, 6, 80000, 16), "C06": (3000, 3, 40000, 5), "C07": (4000, 3, 50000, 5), "C09": (3000, 5, 30000, 10)}
KNOWN_D = {"C05": "D1", "C06": "D2", "C07": "D3"}


def shrink(e, l0_fn, bad_fn, budget=150):
    """greedy shrinking while bad_fn(expr, l0line) stays true"""
    cur = e
    improved = True
    while improved and budget > 0:
        improved = False
        cands = []
        for s in G.shrink_candidates(cur):
            cands.append(s)
            if len(cands) >= 40:
                break
        if not cands:
            break
        lines = l0_fn([G.wire(c) for c in cands])
        budget -= len(cands)
        for c, l in zip(cands, lines):
            if bad_fn(c, l):
                cur = c
                improved = True
                break
    return cur


def run(prop, tier, seed):
    V = C.Verdict(prop, tier, seed)
    rng = random.Random(seed)
    pc = C.proof_check(prop)
    C.build_driver()
    C.build_harness()
    nq, mq, nt, mt = SIZES[prop]
    n, maxlen = (nq, mq) if tier == "quick" else (nt, mt)
    cases = corpus_exprs(prop) + GENS[prop](rng, n, maxlen)
    lines = [G.wire(e) for _, e in cases]
    l0 = C.run_impl(lines)
    l1 = C.run_model(lines)
    if tier == "thorough":
        C.build_harness(release=True)
        l0r = C.run_impl(lines, release=True)
    else:
        l0r = l0
    hist = Counter()
    distinct = set()
    prop_fail, corr_fail = [], []
    for (tag, e), line, a, ar, b in zip(cases, lines, l0, l0r, l1):
        hist[tag] += 1
        if G.expr_size(e) > 2 or tag == "new":
            distinct.add(line)
        orc = G.oracle(e)
        if not G.agrees(a, orc) or not G.agrees(ar, orc):
            prop_fail.append((e, line, a if not G.agrees(a, orc) else ar, b, orc))
        elif C.timed_out(b):
            hist["model-timeout-skipped"] += 1          # the property-level comparison with the oracle above still counts
        elif a != b or ar != b:
            corr_fail.append((e, line, a if a != b else ar, b, orc))
    # property-level failures: shrink, report
    seen_ids = set()
    for e, line, a, b, orc in prop_fail[:40]:
        bad = lambda c, l: (not G.agrees(l, G.oracle(c)))
        small = shrink(e, lambda ls: C.run_impl(ls), bad)
        sl = G.wire(small)
        sa = C.run_impl([sl])[0]
        ident = "%s:%s" % (small[0], classify(small, sa))
        if ident in seen_ids:
            continue
        seen_ids.add(ident)
        V.violation(ident, "%s: implementation gives %s, the mathematical result is %s" % (sl, sa, show_orc(G.oracle(small))),
                    dict(case=sl, original_case=line, impl=sa, model=C.run_model([sl])[0], oracle=show_orc(G.oracle(small))))
    # C07, second clause: a ? branch is taken iff the popped value is below the count, a ! branch iff it equals it —
    # programs that build a value p/q (negative, NaN) and branch on it, run step by step on the real interpreter and
    # on the L2 language definition
    nbranch = 0
    if prop == "C07":
        from . import scripted as S
        from . import execchecks as E
        progs = [S.branch(rng) for _ in range(600 if tier == "quick" else 6000)]
        a = C.run_impl([E.case_line("exec", "pre", 40, p, "") for p in progs])
        b = C.run_model([E.case_line("spec", "pre", 40, p, "") for p in progs])
        nbranch = len(progs)
        for p, x, y in zip(progs, a, b):
            hist["branch-program"] += 1
            if x != y:
                i, dx, dy = E.first_diff(x, y)
                V.violation("branch:" + E.classify(x, y), "program %r: at command %d the interpreter has %s, the language definition gives %s"
                            % (p, i + 1, dx, dy), dict(program=p, impl_trace=x, spec_trace=y))
    if corr_fail and not prop_fail:
        # correspondence broke but no property-level failure on these cases: search a fresh stratified batch
        extra = GENS[prop](random.Random(seed + 1), n, maxlen)
        el = [G.wire(e) for _, e in extra]
        ea = C.run_impl(el)
        found = None
        for (tag, e), l, a in zip(extra, el, ea):
            if not G.agrees(a, G.oracle(e)):
                found = (e, l, a)
                break
        e, line, a, b, orc = corr_fail[0]
        if found:
            V.violation("search:" + found[1], "%s: implementation gives %s, expected %s" % (found[1], found[2], show_orc(G.oracle(found[0]))),
                        dict(case=found[1], impl=found[2], oracle=show_orc(G.oracle(found[0]))))
        else:
            V.violation("correspondence:" + prop, "model/implementation correspondence for %s no longer checks: %s impl=%s model=%s"
                        % (prop, line, a, b),
                        dict(correspondence="L0 (hyeong::number) vs L1 (coq/Model/Big.v, Rat.v, NumText.v)", case=line, impl=a,
                             model=b, disagreements=len(corr_fail)), found_input=False)
    if not pc["ok"]:
        V.violation("proof:" + prop, "proof obligations of %s do not check: %s" % (prop, "; ".join(pc["problems"])),
                    dict(theorem_file="coq/Props/%s.v" % prop, problems=pc["problems"]), found_input=False)
    V.coverage = dict(
        obligations=pc["obligations"], discharged=pc["discharged"], supporting_lemmas=pc["supporting_lemmas"],
        checker_cmd="make -C coq Props/%s.vo && coqc -Q coq HV coq/Props/%s.v (Print Assumptions) ; python3 tools/check.py --property %s --tier %s"
                    % (prop, prop, prop, tier),
        trusted_base=C.TRUSTED_BASE, axioms=pc["axioms"], proof_files=pc["files"],
        evaluations=len(cases) * (3 if tier == "thorough" else 2) + 2 * nbranch, distinct_nontrivial=len(distinct),
        rule="expressions over the public BigNum/Num API generated from limb/sign/gcd strata (tools/hv/numgen.py); each is run on the "
             "real library (debug%s), on the extracted Coq model, and on Python int/Fraction; distinct = distinct wire lines; "
             "non-trivial = more than two limbs in total or a machine-integer constructor case" % (" and release" if tier == "thorough" else ""),
        samples=[lines[i] + "  =>  " + l0[i] for i in range(0, len(lines), max(1, len(lines) // 8))][:10],
        histogram=dict(hist), correspondence_disagreements=len(corr_fail), property_failures=len(prop_fail))
    V.assumptions = ["the L1 model is hand-written; its tie to /repo is the differential run reported here",
                     "Python int/Fraction as mathematical oracle for the failure search"]
    return V.finish()


def show_orc(o):
    if o is None:
        return "unspecified"
    if callable(o):
        return "gcd magnitude predicate"
    return o


def classify(e, line):
    """coarse identity of a failure so that a known finding does not hide a different one"""
    op = e[0]
    if op == "new":
        v = e[1][1]
        return "abs>=2^32" if abs(v) >= (1 << 32) else "small"
    if line == "panic":
        return "panic"
    if line.startswith("N:") and "/-" in line:
        return "negative-denominator"
    return "wrong-value"


def replay(prop, path):
    import json
    r = json.load(open(path))
    C.build_driver()
    C.build_harness()
    line = r.get("case")
    print("case  :", line)
    print("impl  :", C.run_impl([line])[0])
    print("model :", C.run_model([line])[0])
    print("oracle:", r.get("oracle"))
    return 0
