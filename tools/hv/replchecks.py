"""C12: entering a program line by line in the interactive interpreter equals running it whole."""
import os
import random
from collections import Counter

from . import common as C
from . import proggen as G
from . import execchecks as E
from . import scripted as S

HEADER = "Hyeo-ung Programming Language\ntype help for help\n"
HELP = ("clear  Clears the state\nexit   Exit this interpreter\n       You can also exit by typing \"흑.하앙...\"\nhelp   Print this\n")
PROMPT = "> "


def gen_history(rng):
    """returns list of segments; a segment is a list of lines; a line is ('code', [cmd...]) | ('blank', text) | ('help', text)"""
    cmds = [c for c in G.gen_program(rng, rng.choice([2, 3, 4, 6, 8, 10])) if not (c[0] == 5 and c[2] == 0)]
    r = rng.random()
    if r < 0.2:
        prog = G.count_loop(rng.choice([2, 3, 5])).split(" ")
        pieces = prog + [G.render_cmd(c) for c in cmds[:2]]
    elif r < 0.3:
        pieces = ("형" + "." * 65 + " 항. 혀어어어어어어엉" + "." * 6912 + " 항. 형.. 항.").split(" ")
    elif r < 0.34:
        pieces = [G.render_cmd(c) for c in cmds] + ["흑.", "항"]
    elif r < 0.4:
        a, b = rng.choice([66, 67, 72]), rng.choice([69, 70, 33])
        pieces = ["형" + "." * a, "항.", "형" + "." * b, "항.."] + rng.choice([["흑.", "항"], ["흑..", "핫"]])
    elif r < 0.75:
        pieces = S.scripted(rng, with_read=False).split(" ")
    else:
        pieces = [G.render_cmd(c) for c in cmds]
    # random composition into lines
    lines = []
    i = 0
    while i < len(pieces):
        k = rng.choice([1, 1, 2, 3, len(pieces)])
        lines.append(("code", " ".join(pieces[i:i + k])))
        i += k
        if rng.random() < 0.25:
            lines.append(rng.choice([("blank", ""), ("blank", "   "), ("help", "help"), ("help", " help "), ("blank", "\t")]))
    if rng.random() < 0.15:
        j = rng.randrange(len(lines) + 1)
        lines.insert(j, ("clear", rng.choice(["clear", "  clear "])))
    if rng.random() < 0.3:
        # a second program after `clear`: whatever the first left behind (stacks, labels, last jump source) must be gone
        lines.append(("clear", "clear"))
        second = S.scripted(rng, with_read=False).split(" ")
        i = 0
        while i < len(second):
            k = rng.choice([1, 2, 4, len(second)])
            lines.append(("code", " ".join(second[i:i + k])))
            i += k
    return lines


def transcript_from_events(evs, end):
    """the stdout transcript the REPL must show for model/spec events"""
    t = HEADER
    for ev in evs:
        t += PROMPT
        if ev[0] == "H":
            t += HELP
        elif ev[0] == "F":
            if ev[1]:
                t += "[stdout] " + ev[1] + "\n"
            if ev[2]:
                t += "[stderr] " + ev[2] + "\n"
    if end in ("alive", "quit"):
        t += PROMPT
    return t


RWILD = r"(?:(?!(?:> )*(?:\[stdout\] |\[stderr\] ))[^\n]*\n|> )*?"


def loose_pattern(evs):
    """only the text shown for stdout/stderr is fixed; header, prompts, help text may be reworded"""
    import re
    pat = RWILD
    for ev in evs:
        if ev[0] == "F":
            seg = ("[stdout] " + ev[1] + "\n" if ev[1] else "") + ("[stderr] " + ev[2] + "\n" if ev[2] else "")
            if seg:
                pat += re.escape(seg) + RWILD
    return re.compile(pat + r"\Z", re.S)


def parse_model_line(line):
    parts = line.split("|")
    end = parts[-1][4:]
    evs = []
    txt = lambda f: "".join(chr(int(x)) for x in f.split(".")) if f else ""
    for p in parts[:-1]:
        if p == "N":
            evs.append(("N",))
        elif p == "H":
            evs.append(("H",))
        elif p.startswith("F:"):
            _, o, e = p.split(":")
            evs.append(("F", txt(o), txt(e)))
    return evs, end


def spec_events(lines, counts, steps=3000):
    """expected events derived from whole-program runs of the L2 language definition: the text each line's commands write"""
    evs = []
    seg_lines = []   # (index into evs, ncmds, text)
    end = "alive"

    def flush_segment():
        nonlocal end
        if not seg_lines or end != "alive":
            return
        prog = " ".join(t for _, _, t in seg_lines)
        trace = C.run_model([E.case_line("spec", "pre", steps, prog, "")])[0]
        stp = trace.split(";;")
        fin = stp[-1]
        frontier = []
        acc = 0
        for _, n, _ in seg_lines:
            acc += n
            frontier.append(acc)
        k = 0
        while k < len(seg_lines) and seg_lines[k][1] == 0:
            k += 1
        o = e = ""
        txt = lambda f: "".join(chr(int(x)) for x in f.split(".")) if f else ""
        for st in stp[:-1]:
            f = dict(x.split("=", 1) for x in st.split("|") if "=" in x)
            o += txt(f.get("o+", ""))
            e += txt(f.get("e+", ""))
            if st.startswith("X"):
                break
            pcn = int(f["pc"])
            while k < len(seg_lines) and pcn >= frontier[k]:
                evs[seg_lines[k][0]] = ("F", o, e)
                o = e = ""
                k += 1
                while k < len(seg_lines) and seg_lines[k][1] == 0:
                    k += 1
        if fin.startswith("END:exit"):
            evs[seg_lines[k][0]] = ("F", o, e)
            del evs[seg_lines[k][0] + 1:]
            end = "exit" + fin[8:]
        elif fin.startswith("END:err"):
            evs[seg_lines[k][0]] = ("F", o, e)
            del evs[seg_lines[k][0] + 1:]
            end = fin[4:]
        elif fin.startswith("END:fuel"):
            end = "fuel"
    for (kind, text), n in zip(lines, counts):
        if end != "alive":
            break
        if kind == "blank":
            evs.append(("N",))
        elif kind == "help":
            evs.append(("H",))
        elif kind == "clear":
            flush_segment()
            if end != "alive":
                break
            seg_lines = []
            evs.append(("F", "", ""))
        else:
            evs.append(("F", "", ""))
            seg_lines.append((len(evs) - 1, n, text))
    flush_segment()
    return evs, end


def run(prop, tier, seed):
    V = C.Verdict(prop, tier, seed)
    rng = random.Random(seed)
    pc = C.proof_check(prop)
    C.build_driver()
    C.build_harness()
    C.build_repo_bin()
    quick = tier == "quick"
    n = 200 if quick else 5000
    hists = [gen_history(rng) for _ in range(n)]
    hist = Counter()
    # number of commands on each line (real parser)
    flat = [(i, j, l) for i, h in enumerate(hists) for j, l in enumerate(h)]
    cnt_lines = C.run_impl([("parse " + G.cps(l[1])) for _, _, l in flat])
    counts = [[0] * len(h) for h in hists]
    for (i, j, l), r in zip(flat, cnt_lines):
        counts[i][j] = (r.count("|") + 1 if r else 0) if l[0] == "code" else 0
    model = C.run_model(["repl 1 3000 " + ";".join(G.cps(l[1] + "\n") for l in h) for h in hists])

    def real(h):
        stdin = "".join(l[1] + "\n" for l in h).encode("utf-8")
        return C.run_hyeong([], stdin, timeout=6)
    reals = C.pmap(real, hists)
    distinct = set()
    propfail, corr = [], []
    for h, cn, m, (cls, out, err) in zip(hists, counts, model, reals):
        hist["lines"] += len(h)
        hist["histories"] += 1
        for l in h:
            hist["line:" + l[0]] += 1
        got = out.decode("utf-8", "replace")
        gerr = err.decode("utf-8", "replace")
        if C.timed_out(m):
            hist["evaluator-timeout-skipped"] += 1
            continue
        mev, mend = parse_model_line(m)
        sev, send = spec_events(h, cn)
        hist["end:" + send.split(":")[0]] += 1
        if len(h) >= 2:
            distinct.add(tuple(l[1] for l in h))
        if send == "fuel" or mend == "fuel" or cls == "timeout":
            hist["skipped-nonterminating"] += 1
            continue
        want = transcript_from_events(sev, send)
        want_cls = {"alive": "exit0", "quit": "exit0", "exit0": "exit0", "exit1": "exit1"}.get(send, "exit1")
        ok = got == want and cls == want_cls and ((gerr != "") == send.startswith("err"))
        if not ok and cls == want_cls and ((gerr != "") == send.startswith("err")) and loose_pattern(sev).match(got):
            hist["cosmetic-difference"] += 1       # reworded header/help/prompt: the shown program text is exactly right
            ok = True
        if not ok:
            propfail.append((h, got, want, cls, want_cls, gerr))
            continue
        mwant = transcript_from_events(mev, mend)
        if (mwant != got and not loose_pattern(mev).match(got)) or mend != send:
            corr.append((h, got, mwant, mend))
    seen = set()
    for h, got, want, cls, want_cls, gerr in propfail[:20]:
        kind = "exit-status" if cls != want_cls and got == want else ("lost-output-on-error" if "[error]" in gerr and len(got) < len(want) else "transcript")
        ident = "repl:" + kind
        if ident in seen:
            continue
        seen.add(ident)
        V.violation(ident, "entering %r line by line shows %r (status %s), running the same commands whole gives per line %r (status %s)"
                    % ([l[1] for l in h], got, cls, want, want_cls),
                    dict(lines=[l[1] for l in h], transcript=got, expected=want, status=cls, stderr=gerr))
    if corr and not propfail:
        h, got, mwant, mend = corr[0]
        V.violation("correspondence:" + prop, "REPL model/implementation correspondence no longer checks on %r" % ([l[1] for l in h],),
                    dict(correspondence="L0 `hyeong` interactive vs L1 coq/Model/Repl.v", lines=[l[1] for l in h], transcript=got, model=mwant,
                         disagreements=len(corr)), found_input=False)
    if not pc["ok"]:
        V.violation("proof:" + prop, "proof obligations of %s do not check: %s" % (prop, "; ".join(pc["problems"])),
                    dict(theorem_file="coq/Props/%s.v" % prop, problems=pc["problems"]), found_input=False)
    # a single entered line that writes a very long text (a loop closed by the last command of the history): expected
    # transcript from the binary's own whole-program run
    big = G.count_loop(70000 if quick else 200000)
    first, last = big.rsplit(" ", 1)
    d = C.scratch_dir("c12")
    bp = os.path.join(d, "big.hyeong")
    with open(bp, "w", encoding="utf-8") as fh:
        fh.write(big)
    (wc, wo, we), (gc, go, ge) = C.pmap(lambda i: C.run_hyeong(["run", "-O0", bp], b"", timeout=300) if i == 0
                                        else C.run_hyeong([], (first + "\n" + last + "\n").encode("utf-8"), timeout=300), [0, 1])
    whole = (C.split_run_stdout(wo) or b"").decode("utf-8", "replace")
    hist["long-output-history"] += 1
    if wc == "exit0" and len(whole) > 65536:
        want_big = HEADER + PROMPT + "[stdout] " + whole[:1] + "\n" + PROMPT + "[stdout] " + whole[1:] + "\n" + PROMPT
        got_big = go.decode("utf-8", "replace")
        if got_big != want_big or gc != "exit0":
            ok_loose = gc == "exit0" and loose_pattern([("F", whole[:1], ""), ("F", whole[1:], "")]).match(got_big)
            if not ok_loose:
                V.violation("repl:long-output", "a line that writes %d characters is not shown as one text: transcript has %d characters, begins %r, "
                            "the whole run writes %r..." % (len(whole) - 1, len(got_big), got_big[:120], whole[:20]),
                            dict(lines=[first[:200] + "...", last], transcript_head=got_big[:400], transcript_len=len(got_big),
                                 whole_run_len=len(whole)))
    V.coverage = dict(
        obligations=pc["obligations"], discharged=pc["discharged"], supporting_lemmas=pc["supporting_lemmas"],
        checker_cmd="make -C coq Props/%s.vo && coqc -Q coq HV coq/Props/%s.v (Print Assumptions) ; python3 tools/check.py --property %s --tier %s"
                    % (prop, prop, prop, tier),
        trusted_base=C.TRUSTED_BASE, axioms=pc["axioms"], proof_files=pc["files"],
        evaluations=len(hists) * 3, distinct_nontrivial=len(distinct),
        rule="input-free programs (random, counting loops with jumps back into earlier lines, exits through stack 1, an encoding error after "
             "output) cut at command boundaries into lines by a random composition, with blank/help lines and an optional clear in between; "
             "each history is fed to `hyeong --color never` and the transcript compared (a) with the per-line text derived from whole-program "
             "runs of the L2 language definition and (b) with the extracted L1 REPL model; histories of at least two lines are non-trivial",
        samples=[dict(lines=[l[1][:40] for l in hists[i]], transcript=reals[i][1].decode("utf-8", "replace")[len(HEADER):][:160]) for i in range(0, len(hists), max(1, len(hists) // 5))][:6],
        histogram=dict(hist), correspondence_disagreements=len(corr), property_failures=len(propfail))
    V.assumptions = ["programs do not read input (the interpreter shares stdin with the program)",
                     "the terminal (colour, Ctrl-C handler) is not modelled"]
    return V.finish()


def replay(prop, path):
    import json
    r = json.load(open(path))
    C.build_repo_bin()
    stdin = "".join(l + "\n" for l in r.get("lines", [])).encode("utf-8")
    print(C.run_hyeong([], stdin, timeout=6))
    return 0
