"""Number layer: stratified generators, wire format, and the mathematical oracle (Python int / Fraction)."""
from fractions import Fraction

B = 1 << 32
LIMB_SPECIAL = [0, 1, 2, 1 << 31, B - 2, B - 1, (1 << 16), (1 << 16) - 1]


class NaN:
    def __repr__(self):
        return "NaN"


NAN = NaN()
NAN_TEXT = "너무 커엇..."


# ------------------------------------------------------------------ generators

def gen_limbs(rng, maxlen):
    n = rng.choice([1, 1, 1, 2, 2, 3, rng.randint(1, maxlen)])
    kind = rng.random()
    limbs = []
    for _ in range(n):
        r = rng.random()
        if kind < 0.15:
            limbs.append(rng.choice([0, B - 1]))
        elif r < 0.45:
            limbs.append(rng.choice(LIMB_SPECIAL))
        elif r < 0.6:
            limbs.append(rng.randint(0, 40))
        else:
            limbs.append(rng.randint(0, B - 1))
    if rng.random() < 0.9 and limbs[-1] == 0 and n > 1:
        limbs[-1] = rng.choice([1, B - 1, rng.randint(1, B - 1)])
    return limbs


def limbs_val(l):
    return sum(x << (32 * i) for i, x in enumerate(l))


def val_limbs(v):
    v = abs(v)
    out = [v % B]
    v //= B
    while v:
        out.append(v % B)
        v //= B
    return out


def lit(v):
    """big literal expression for a Python int"""
    return ("L", v < 0, val_limbs(v))


def gen_big(rng, maxlen=6):
    return ("L", rng.random() < 0.5, gen_limbs(rng, maxlen))


def fib_pair(rng, maxk=180):
    """consecutive Fibonacci numbers: the worst case of Euclid's algorithm (most rounds for the size)"""
    k = rng.choice([5, 12, 30, 40, 46, 47, 48, 70, 92, 93, 94, 120, rng.randint(3, maxk)])
    x, y = 1, 1
    for _ in range(k):
        x, y = y, x + y
    return x, y


def chain_pair(rng, a):
    """carry / borrow chains: b is the limb-wise complement of a (every limb sum is exactly B-1) plus a little, so that a carry
    (or, in a subtraction, a borrow) arrives at limbs that sum to B-1 (resp. at all-ones / zero limbs)"""
    l = list(a[2]) if len(a[2]) > 1 else list(a[2]) + [rng.choice([0, 1, B - 1, rng.randint(0, B - 1)])]
    a = ("L", a[1], l)
    comp = [(B - 1 - x) for x in l]
    if rng.random() < 0.5:
        k = rng.randrange(len(comp))
        comp[k] = rng.choice([comp[k], B - 1, 0])
    v = limbs_val(comp) + rng.choice([0, 1, 1, 2, B - 1, B, B + 1])
    b = ("L", rng.choice([a[1], a[1], not a[1]]), val_limbs(v))
    return (a, b) if rng.random() < 0.5 else (b, a)


MACHINE_EDGES = sorted(set(s * ((1 << k) + d) for k in (7, 8, 15, 16, 31, 32, 33, 62) for d in (-1, 0, 1) for s in (1, -1))
                       | {(1 << 63) - 1, -(1 << 63), -(1 << 63) + 1, 0, 1, -1})


def gen_big_pair(rng, maxlen=6):
    a = gen_big(rng, maxlen)
    r = rng.random()
    if r < 0.07:
        return chain_pair(rng, a)
    if r < 0.11:
        # a power of the limb base (plus a little) against operands with all-ones limbs: borrows run through every limb
        k = rng.choice([1, 2, 2, 3, 4])
        a = ("L", rng.random() < 0.5, val_limbs((1 << (32 * k)) + rng.choice([0, 0, 1, B - 1])))
        b = ("L", rng.random() < 0.5, [rng.choice([1, 2, B - 1, rng.randint(1, B - 1)])] + [B - 1] * rng.randint(1, k))
        return (a, b) if rng.random() < 0.5 else (b, a)
    if r < 0.15:
        x, y = fib_pair(rng, 45 * maxlen)
        m = rng.choice([1, 1, 1, 2, 3, 641, B - 1])
        a, b = lit(x * m * rng.choice([1, -1])), lit(y * m * rng.choice([1, -1]))
        return (a, b) if rng.random() < 0.5 else (b, a)
    r = rng.random()
    if r < 0.08:
        b = a
    elif r < 0.16:
        b = ("L", not a[1], list(a[2]))
    elif r < 0.24:
        # differ in one limb by one
        l = list(a[2])
        i = rng.randrange(len(l))
        l[i] = (l[i] + rng.choice([1, B - 1])) % B
        b = ("L", rng.choice([a[1], not a[1]]), l)
    elif r < 0.3:
        b = ("L", rng.random() < 0.5, [rng.choice([0, 1])])
    else:
        b = gen_big(rng, maxlen)
    if rng.random() < 0.5:
        a, b = b, a
    return a, b


def big_value(e):
    v = limbs_val(e[2])
    return -v if e[1] else v


def gen_rat(rng, maxlen=3):
    """rational literal N(up, down) with forced common factors / sign patterns, or NaN forms"""
    r = rng.random()
    if r < 0.06:
        return ("nan",)
    if r < 0.09:
        return ("nneg", ("nan",))
    up = gen_big(rng, maxlen)
    down = ("L", False, gen_limbs(rng, maxlen))
    if limbs_val(down[2]) == 0:
        down = ("L", False, [rng.randint(1, 9)])
    k = rng.random()
    if k < 0.3:
        down = ("L", False, [1])
    elif k < 0.6:
        g = limbs_val(gen_limbs(rng, 2)) or 6
        up = lit(big_value(up) * g)
        down = lit(big_value(down) * g)
    elif k < 0.7:
        up = ("L", rng.random() < 0.5, [rng.randint(0, 12)])
        down = ("L", False, [rng.randint(1, 12)])
    if rng.random() < 0.15:
        down = ("L", True, down[2])   # negative denominator handed to from_big_num
    if rng.random() < 0.05:
        x, y = fib_pair(rng, 45 * maxlen)                     # numerator and denominator: consecutive Fibonacci numbers (times a factor)
        m = rng.choice([1, 1, 2, 641])
        up, down = lit(x * m * rng.choice([1, -1])), lit(y * m)
    return ("N", up, down)


def gen_rat_pair(rng, maxlen=3):
    if rng.random() < 0.06:
        # integer-valued (or same-denominator) operands whose numerators form a carry chain (see gen_big_pair)
        x, y = chain_pair(rng, gen_big(rng, maxlen + 1))
        d = rng.choice([("L", False, [1]), ("L", False, [1]), ("L", False, [rng.choice([2, 3, 7, B - 1])])])
        return ("N", x, d), ("N", y, d)
    a = gen_rat(rng, maxlen)
    r = rng.random()
    if r < 0.1:
        b = a
    elif r < 0.2 and a[0] == "N":
        b = ("N", ("L", not a[1][1], a[1][2]), a[2])          # negated: sums hit zero
    elif r < 0.3 and a[0] == "N":
        b = ("N", a[1], lit(big_value(a[2]) + (1 if big_value(a[2]) >= 0 else -1)))   # same numerator
    elif r < 0.4 and a[0] == "N":
        b = ("N", lit(big_value(a[1]) + 1), a[2])            # neighbour
    else:
        b = gen_rat(rng, maxlen)
    if rng.random() < 0.5:
        a, b = b, a
    return a, b


# ------------------------------------------------------------------ wire format

def tokens(e):
    t = e[0]
    if t == "L":
        return ["L" + ("-" if e[1] else "+") + ",".join(str(x) for x in e[2])]
    if t == "I":
        return ["I%d" % e[1]]
    if t == "U":
        return ["U%d" % e[1]]
    if t == "T":
        return ["T" + ",".join(str(ord(c)) for c in e[1])]
    out = [t]
    for a in e[1:]:
        out.extend(tokens(a))
    return out


def wire(e):
    return "num " + " ".join(tokens(e))


# ------------------------------------------------------------------ oracle

class Undefined(Exception):
    """the property does not fix the result (outside the claim)"""


def trunc_div(a, b):
    q = abs(a) // abs(b)
    return q if (a >= 0) == (b >= 0) else -q


def to_base(v, base):
    digs = "0123456789ABCDEFGHIJKLMNOPQRSTUVWXYZ"
    if v == 0:
        return "0"
    s, n = "", abs(v)
    while n:
        s = digs[n % base] + s
        n //= base
    return ("-" if v < 0 else "") + s


def ev(e):
    """value of an expression: int | Fraction | NAN | bool | ('cmp', x) | str | ('err', kind) | ('absbig', n)"""
    t = e[0]
    if t == "L":
        return big_value(e)
    if t in ("I", "U"):
        return e[1]
    if t == "T":
        return e[1]
    a = [ev(x) for x in e[1:]]
    if t in ("add", "addas"):
        return a[0] + a[1]
    if t in ("sub", "subas"):
        return a[0] - a[1]
    if t in ("mul", "mulas"):
        return a[0] * a[1]
    if t in ("div", "divas"):
        if a[1] == 0:
            raise Undefined()
        return trunc_div(a[0], a[1])
    if t in ("rem", "remas"):
        if a[1] == 0:
            raise Undefined()
        return a[0] - trunc_div(a[0], a[1]) * a[1]
    if t == "gcd":
        import math
        if a[0] == 0 and a[1] == 0:
            return 0
        return ("absbig", math.gcd(a[0], a[1]))
    if t == "cmp":
        return ("cmp", "Lt" if a[0] < a[1] else "Eq" if a[0] == a[1] else "Gt")
    if t == "eq":
        return a[0] == a[1]
    if t in ("neg", "minus"):
        return -a[0]
    if t == "is_zero":
        return a[0] == 0
    if t == "is_pos":
        return a[0] >= 0
    if t == "to_int":
        return ("u", abs(a[0]) % B)
    if t == "disp":
        return str(a[0])
    if t == "new":
        if not (-(1 << 63) <= a[0] < (1 << 63)):
            raise Undefined()
        return a[0]
    if t == "tsb":
        if not (2 <= a[1] <= 36):
            if a[1] == 1:
                raise Undefined()
            return ("err", "base")
        return to_base(a[0], a[1])
    if t == "fsb":
        s, base = a
        if not (1 <= base <= 36):
            return ("err", "base")
        body = s[1:] if s.startswith("-") else s
        digs = "0123456789ABCDEFGHIJKLMNOPQRSTUVWXYZ"
        if any(c not in digs for c in body):
            return ("err", "parse")
        # C09_from_string_any_text: the Horner value of the digits, whatever the base (digits at or above the base, base 1,
        # leading zeros and the empty body included); "-0...0" gives a negative zero, which is not a normal form
        v = 0
        for c in body:
            v = v * base + digs.index(c)
        if s.startswith("-") and v == 0:
            raise Undefined()
        return -v if s.startswith("-") else v
    # ---- rationals
    if t == "N":
        if a[1] == 0:
            if a[0] == 0:
                raise Undefined()
            return NAN
        return Fraction(a[0], a[1])
    if t == "nan":
        return NAN
    if t == "nnew":
        if a[1] >= (1 << 63):
            raise Undefined()
        if a[1] == 0:
            if a[0] == 0:
                raise Undefined()
            return NAN
        return Fraction(a[0], a[1])
    if t == "fromnum":
        return Fraction(a[0])
    if t in ("nadd", "naddas"):
        return NAN if (a[0] is NAN or a[1] is NAN) else a[0] + a[1]
    if t in ("nmul", "nmulas"):
        return NAN if (a[0] is NAN or a[1] is NAN) else a[0] * a[1]
    if t in ("nneg", "nminus"):
        return NAN if a[0] is NAN else -a[0]
    if t == "nflip":
        return NAN if (a[0] is NAN or a[0] == 0) else 1 / a[0]
    if t == "floor":
        if a[0] is NAN or a[0] < 0:
            raise Undefined()
        return a[0].numerator // a[0].denominator
    if t == "nispos":
        return (a[0] is not NAN) and a[0] >= 0
    if t == "nisnan":
        return a[0] is NAN
    if t == "ncmp":
        if a[0] is NAN or a[1] is NAN:
            return ("cmp", "None")
        return ("cmp", "Lt" if a[0] < a[1] else "Eq" if a[0] == a[1] else "Gt")
    if t == "neq":
        if a[0] is NAN or a[1] is NAN:
            raise Undefined()
        return a[0] == a[1]
    if t == "ndisp":
        return rat_text(a[0])
    if t == "nfs":
        s = a[0]
        if s == NAN_TEXT:
            return NAN
        try:
            parts = s.split("/")
            if len(parts) == 1:
                return Fraction(int(parts[0]))
            return Fraction(int(parts[0]), int(parts[1]))
        except Exception:
            raise Undefined()
    raise Undefined()


def rat_text(v):
    if v is NAN:
        return NAN_TEXT
    v = Fraction(v)
    return str(v.numerator) if v.denominator == 1 else "%d/%d" % (v.numerator, v.denominator)


def b01(b):
    return "1" if b else "0"


def oracle(e):
    """canonical result line the property demands, a predicate on the result line, or None if unspecified"""
    try:
        v = ev(e)
    except Undefined:
        return None
    except (ZeroDivisionError, ValueError, OverflowError):
        return None
    if v is NAN:
        return "N:%s:0:1" % NAN_TEXT
    if isinstance(v, bool):
        return "b:" + b01(v)
    if isinstance(v, int):
        return "B:%d:%s:%s" % (v, b01(v >= 0), b01(v == 0))
    if isinstance(v, Fraction):
        return "N:%s:%s:0" % (rat_text(v), b01(v >= 0))
    if isinstance(v, str):
        return "s:" + v
    if isinstance(v, tuple):
        if v[0] == "cmp":
            return "c:" + v[1]
        if v[0] == "err":
            return "e:" + v[1]
        if v[0] == "u":
            return "u:%d" % v[1]
        if v[0] == "absbig":
            n = v[1]
            return lambda line: line in ("B:%d:1:0" % n, "B:-%d:0:0" % n) if n else line == "B:0:1:1"
    return None


def agrees(line, orc):
    if orc is None:
        return True
    if callable(orc):
        return orc(line)
    return line == orc


def expr_size(e):
    if e[0] == "L":
        return len(e[2])
    return 1 + sum(expr_size(x) for x in e[1:] if isinstance(x, tuple))


def shrink_candidates(e):
    """smaller variants of an expression (drop limbs, simplify limbs)"""
    if e[0] == "L":
        l = e[2]
        if len(l) > 1:
            yield ("L", e[1], l[:-1])
            yield ("L", e[1], l[1:])
        for i, x in enumerate(l):
            for y in (0, 1, x >> 1, B - 1):
                if y != x and y < x:
                    yield ("L", e[1], l[:i] + [y] + l[i + 1:])
        if e[1]:
            yield ("L", False, l)
        return
    for i in range(1, len(e)):
        if isinstance(e[i], tuple):
            for s in shrink_candidates(e[i]):
                yield e[:i] + (s,) + e[i + 1:]
