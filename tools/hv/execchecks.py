"""C01: the interpreter follows the language definition (proof obligations + correspondence)."""
import os
import random
from collections import Counter

from . import common as C
from . import proggen as G
from . import parsegen as P
from . import scripted as S


def case_line(layer, mode, steps, prog, stdin):
    return "%s %s %d %s %s" % (layer, mode, steps, G.cps(prog), G.cps(stdin))


def gen_cases(rng, n):
    cases = [(tag, prog, stdin) for tag, prog, stdin in G.templates(rng)]
    cases += G.boundary_programs()
    for _ in range(max(10, n)):
        cases.append(("scripted", S.scripted(rng), G.gen_stdin(rng)))
    for _ in range(max(10, n // 8)):
        cases.append(("branch", S.branch(rng), ""))
    for _ in range(max(12, n // 10)):
        cases.append(("bigarith", S.bigarith(rng), ""))
    for _ in range(n):
        cmds = G.gen_program(rng)
        noisy = rng.random() < 0.15
        if noisy:
            text, _ = P.render(rng, [(k, s, d, t) for (k, s, d, t) in cmds], noisy=True)
        else:
            text = G.render(cmds, sep=rng.choice([" ", " ", "\n"]))
        cases.append(("random", text, G.gen_stdin(rng)))
    return cases


def shrink_case(prog, stdin, bad_fn, budget=120):
    """drop commands (programs are whitespace-separated) and shorten stdin while the failure persists"""
    import time as _t
    t_end = _t.time() + 90                       # shrinking is a convenience: bounded in evaluations and in wall time
    parts = prog.split()
    # long programs first lose whole chunks (halves, quarters, ...), then single commands
    chunk = len(parts) // 2
    while chunk >= 2 and budget > 0 and _t.time() < t_end:
        i, removed = 0, False
        while i < len(parts) and budget > 0 and _t.time() < t_end:
            cand = parts[:i] + parts[i + chunk:]
            budget -= 1
            if cand and bad_fn(" ".join(cand), stdin):
                parts, removed = cand, True
            else:
                i += chunk
        chunk = chunk // 2 if not removed or chunk > len(parts) // 2 else chunk
        if not removed:
            continue
    changed = True
    while changed and budget > 0 and _t.time() < t_end:
        changed = False
        for i in range(len(parts)):
            if budget <= 0 or _t.time() > t_end:
                break
            cand = parts[:i] + parts[i + 1:]
            budget -= 1
            if cand and bad_fn(" ".join(cand), stdin):
                parts = cand
                changed = True
                break
        if not changed and stdin:
            for cand in (stdin[:len(stdin) // 2], stdin[:-1], stdin[1:]):
                budget -= 1
                if cand != stdin and bad_fn(" ".join(parts), cand):
                    stdin = cand
                    changed = True
                    break
    return " ".join(parts), stdin


def first_diff(a, b):
    sa, sb = a.split(";;"), b.split(";;")
    for i, (x, y) in enumerate(zip(sa, sb)):
        if x != y:
            return i, x, y
    return min(len(sa), len(sb)), (sa[len(sb):] or ["<end>"])[0], (sb[len(sa):] or ["<end>"])[0]


def classify(a, b):
    i, x, y = first_diff(a, b)
    if x.startswith("END") or y.startswith("END") or x.startswith("X") or y.startswith("X"):
        return "outcome"
    fx = dict(f.split("=", 1) for f in x.split("|") if "=" in f)
    fy = dict(f.split("=", 1) for f in y.split("|") if "=" in f)
    for k in ("c", "s", "l", "p", "pc", "o+", "e+"):
        if fx.get(k) != fy.get(k):
            return {"c": "selected-stack", "s": "stacks", "l": "last-jump", "p": "labels", "pc": "control", "o+": "stdout",
                    "e+": "stderr"}[k]
    return "other"


def spec_fields(spec):
    if spec == "timeout":
        return "fuel", "", ""
    f = {}
    for x in spec.split("|"):
        if x.startswith("END:"):
            f["END"] = x[4:]
        elif "=" in x:
            k, v = x.split("=", 1)
            f[k] = v
    txt = lambda v: "".join(chr(int(c)) for c in v.split(".")) if v else ""
    return f.get("END", "?"), txt(f.get("o", "")), txt(f.get("e", ""))


def binary_level(V, cases, hist, n, level="-O0", tagp="binary"):
    """`hyeong run -O<k>` against the L2 prediction of the whole run"""
    C.build_repo_bin()
    d = C.scratch_dir("run" + level)
    sel = cases[:min(n, len(cases))]
    specs = C.run_model([case_line("spec", "run", 20000, p, s) for _, p, s in sel])

    def one(k):
        tag, prog, stdin = sel[k]
        path = os.path.join(d, "p%d.hyeong" % k)
        with open(path, "w", encoding="utf-8") as fh:
            fh.write(prog)
        return C.run_hyeong(["run", level, path], stdin.encode("utf-8"), timeout=1.5)
    res = C.pmap(one, range(len(sel)))
    bad = 0
    for (tag, prog, stdin), spec, (cls, out, err) in zip(sel, specs, res):
        hist[tagp + "-runs"] += 1
        end, want_out, want_err = spec_fields(spec)
        got_out = C.split_run_stdout(out)
        got_out = got_out.decode("utf-8", "replace") if got_out is not None else None
        got_err = err.decode("utf-8", "replace")
        if end == "fuel" or cls == "timeout":
            ok = got_out is not None and (want_out.startswith(got_out) or got_out.startswith(want_out))
        else:
            want_cls = {"done": "exit0", "exit0": "exit0", "exit1": "exit1"}.get(end, "exit1")
            if end.startswith("err:enc") and level != "-O0":
                # an optimised run may withhold text written before the error
                k = got_err.find("[error]")
                ok = (cls == want_cls and got_out is not None and want_out.startswith(got_out) and k >= 0
                      and want_err.startswith(got_err[:k]) and got_err[k:].strip() != "[error]")      # a diagnostic; its wording is free
                rest = ""
            else:
                ok = cls == want_cls and got_out == want_out and got_err.startswith(want_err)
                rest = got_err[len(want_err):] if got_err.startswith(want_err) else ""
            if end.startswith("err:enc") and level != "-O0":
                pass
            elif end.startswith("err:enc"):
                ok = ok and rest.startswith("[error]") and rest.strip() != "[error]"
            elif end.startswith("err:io"):
                ok = ok and rest.startswith("[error]")
            else:
                ok = ok and rest == ""
        if not ok:
            bad += 1
            V.violation(tagp + ":" + end.split(":")[0],
                        "`hyeong run %s` on %r with stdin %r: %s stdout %r stderr %r; the language definition gives %s stdout %r stderr %r"
                        % (level, prog, stdin, cls, got_out, got_err, end, want_out, want_err),
                        dict(program=prog, stdin=stdin, exit=cls, stdout=got_out, stderr=got_err, spec=spec))
    return bad


def run(prop, tier, seed):
    V = C.Verdict(prop, tier, seed)
    rng = random.Random(seed)
    pc = C.proof_check(prop)
    C.build_driver()
    C.build_harness()
    quick = tier == "quick"
    n, steps, nbin = (500, 150, 120) if quick else (3000, 300, 1200)
    cases = gen_cases(rng, n)
    hist = Counter()
    l0 = C.run_impl([case_line("exec", "pre", steps, p, s) for _, p, s in cases])
    l1 = C.run_model([case_line("exec", "pre", steps, p, s) for _, p, s in cases])
    l2 = C.run_model([case_line("spec", "pre", steps, p, s) for _, p, s in cases])
    distinct = set()
    propfail, corr = [], []
    for (tag, prog, stdin), a, b, c in zip(cases, l0, l1, l2):
        hist[tag if tag in ("random", "scripted", "branch", "bigarith") else "template"] += 1
        if C.timed_out(a, b, c):
            hist["evaluator-timeout-skipped"] += 1
            continue
        nsteps = a.count(";;")
        hist["steps"] += nsteps
        end = a.rsplit("END:", 1)[-1] if "END:" in a else "?"
        hist["end:" + end.split(":")[0]] += 1
        if any(f.startswith("o+=") and len(f) > 3 for st in a.split(";;") for f in st.split("|")):
            hist["writes-stdout"] += 1
        if "/" in a:
            hist["has-fraction"] += 1
        if "nan" in a:
            hist["has-nan"] += 1
        if ":-" in a or ",-" in a:
            hist["has-negative"] += 1
        if "p=" in a and any(f.startswith("p=") and len(f) > 2 for st in a.split(";;") for f in st.split("|")):
            hist["registers-label"] += 1
        if nsteps >= 2:
            distinct.add((prog, stdin))
        if "##" in b:
            corr.append((prog, stdin, a, b, "model loop disagrees with its own steps"))
        if a != c:
            propfail.append((prog, stdin, a, c))
        elif a != b:
            corr.append((prog, stdin, a, b, "L0 vs L1"))
    seen = set()
    for prog, stdin, a, c in propfail[:30]:
        def bad(p, s):
            x = C.run_impl([case_line("exec", "pre", steps, p, s)])[0]
            y = C.run_model([case_line("spec", "pre", steps, p, s)])[0]
            return x != y
        sp, ss = shrink_case(prog, stdin, bad)
        x = C.run_impl([case_line("exec", "pre", steps, sp, ss)])[0]
        y = C.run_model([case_line("spec", "pre", steps, sp, ss)])[0]
        ident = "step:" + classify(x, y)
        if ident in seen:
            continue
        seen.add(ident)
        i, dx, dy = first_diff(x, y)
        V.violation(ident, "program %r with stdin %r: at command %d the interpreter has %s, the language definition gives %s"
                    % (sp, ss, i + 1, dx, dy), dict(program=sp, stdin=ss, impl_trace=x, spec_trace=y, original_program=prog))
    if corr and not propfail:
        prog, stdin, a, b, why = corr[0]
        V.violation("correspondence:" + prop, "interpreter model/implementation correspondence no longer checks (%s) on %r" % (why, prog),
                    dict(correspondence="L0 execute::execute_one vs L1 coq/Model/Exec.v", program=prog, stdin=stdin, impl=a, model=b,
                         disagreements=len(corr)), found_input=False)
    nbad = binary_level(V, cases, hist, nbin)
    if not pc["ok"]:
        V.violation("proof:" + prop, "proof obligations of %s do not check: %s" % (prop, "; ".join(pc["problems"])),
                    dict(theorem_file="coq/Props/%s.v" % prop, problems=pc["problems"]), found_input=False)
    V.coverage = dict(
        obligations=pc["obligations"], discharged=pc["discharged"], supporting_lemmas=pc["supporting_lemmas"],
        checker_cmd="make -C coq Props/%s.vo && coqc -Q coq HV coq/Props/%s.v (Print Assumptions) ; python3 tools/check.py --property %s --tier %s"
                    % (prop, prop, prop, tier),
        trusted_base=C.TRUSTED_BASE, axioms=pc["axioms"], proof_files=pc["files"],
        evaluations=len(cases) * 3 + hist["binary-runs"], distinct_nontrivial=len(distinct),
        rule="template programs for every mechanism named in the anchors plus random programs (kinds uniform, small syllable counts, "
             "stack indices biased to 0-3 and three private stacks, areas with ?/!/hearts/white heart) x stratified stdin texts; each is run "
             "step by step (execute_one over the preloaded program, state read through the State API after every command) on the real "
             "library, on the extracted L1 model and on the extracted L2 language definition, up to a step budget; a subset also through "
             "`hyeong run -O0`; distinct (program, stdin) pairs executing at least two commands count as non-trivial",
        samples=[dict(tag=cases[i][0], program=cases[i][1][:100], stdin=cases[i][2][:30], trace=l0[i][:240])
                 for i in range(0, len(cases), max(1, len(cases) // 6))][:8],
        histogram=dict(hist), correspondence_disagreements=len(corr), property_failures=len(propfail), binary_failures=nbad)
    V.assumptions = ["the L1 model and the L2 definition are hand-written; their tie to /repo is the differential run reported here",
                     "counts < 2^31 and output values < 2^32 as the property excludes larger ones",
                     "the real stdin/stdout byte path is exercised only by the binary-level subset"]
    return V.finish()


def replay(prop, path):
    import json
    r = json.load(open(path))
    C.build_driver()
    C.build_harness()
    p, s = r.get("program", ""), r.get("stdin", "")
    print("impl :", C.run_impl([case_line("exec", "pre", 300, p, s)])[0])
    print("model:", C.run_model([case_line("exec", "pre", 300, p, s)])[0])
    print("spec :", C.run_model([case_line("spec", "pre", 300, p, s)])[0])
    return 0
