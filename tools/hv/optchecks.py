"""C02: optimisation levels 1 and 2 preserve behaviour (proof obligations + correspondence)."""
import os
import random
from collections import Counter

from . import common as C
from . import proggen as G
from . import execchecks as E
from . import scripted as S

# programs aimed at the optimiser's mechanisms (anchors of C02)
def opt_templates():
    out = []
    out.append(("two-operand-sub", "혀엉" + "." * 24 + " 혀어엉" + "." * 17 + " 흐읏..... 항. 항.", ""))
    out.append(("two-operand-recip", "형.. 형..... 흐읍.... 하앙... 항.", ""))
    out.append(("print-then-bail", "흑... 흑.!♥ 하아앙... 흐읍....", ""))
    out.append(("print-then-read", "형" + "." * 66 + " 항. 흑 항.", "xy"))
    out.append(("last-switch-then-jump", "형.♥ 항. 형. 항..... 형... 흑.... 형.??♥!", ""))
    out.append(("private-stacks", "형.. 흑..... 형... 흑....... 하앙. 흑..... 항.", ""))
    out.append(("shared-slot", "형.. 항......... 형... 항........ 흑......... 항. 흑........ 항.", ""))
    # the pre-executed prefix has written to a stream AND leaves data on the stacks, which the rest of the program uses after a read
    for stream in (1, 2):
        for keep in (3, 4, 7):
            sel = "" if keep == 3 else " 흑" + "." * keep
            out.append(("preexec-output-and-data",
                        "형" + "." * 66 + sel + " 형" + "." * 67 + " 형" + "." * 68 + " 항" + "." * stream + " 흑 항. 흑" + "." * keep + " 항. 항. 항.", "x\n"))
    for k in (99, 100, 101, 102, 250):
        out.append(("loop-%d" % k, G.count_loop(k), ""))
    out.append(("loop-then-read", G.count_loop(5) + " 흑 항.", "q"))
    out.append(("loop-forever", "형.♥ 형. 항. 형..❤ 형.♥", ""))
    out.append(("exit-after-print", "형" + "." * 66 + " 항. 흑. 항", ""))
    out.append(("enc-error-after-print", "형" + "." * 65 + " 항. 혀어어어어어어엉" + "." * 6912 + " 항.", ""))
    out.append(("enc-error-after-read", "형" + "." * 65 + " 항. 흑 항. 흑... 혀어어어어어어엉" + "." * 6912 + " 항.", "z"))
    return out


def gen_cases(rng, n):
    cases = opt_templates() + [(t, p, s) for t, p, s in G.templates(rng)] + G.boundary_programs()
    cases += G.output_text_cases(rng) + G.bulk_output_cases(n > 1000)
    for _ in range(max(20, n // 3)):
        cases.append(("scripted", S.scripted(rng), G.gen_stdin(rng)))
    for _ in range(max(12, n // 10)):
        cases.append(("bigarith", S.bigarith(rng), ""))
    for _ in range(n):
        cmds = G.gen_program(rng)
        cases.append(("random", G.render(cmds), G.gen_stdin(rng)))
    return cases


def run_bin(cases, level, tag):
    d = C.scratch_dir("c02" + tag)

    def one(k):
        t, prog, stdin = cases[k]
        path = os.path.join(d, "p%d.hyeong" % k)
        with open(path, "w", encoding="utf-8") as fh:
            fh.write(prog)
        cls, out, err = C.run_hyeong(["run", "-O%d" % level, path], stdin.encode("utf-8"), timeout=1.5)
        po = C.split_run_stdout(out)
        return cls, (po.decode("utf-8", "replace") if po is not None else None), err.decode("utf-8", "replace")
    return C.pmap(one, range(len(cases)))


def same_behaviour(r0, rk):
    """r = (exit class, program stdout or None when the run never started, stderr)."""
    c0, o0, e0 = r0
    ck, ok_, ek = rk
    if c0 == "timeout" or ck == "timeout":
        return (o0 or "").startswith(ok_ or "") or (ok_ or "").startswith(o0 or "")
    enc0 = "[error]" in e0 and c0 == "exit1"          # a diagnosed stop (the wording of the diagnostic is free)
    if enc0:
        # same kind of error; text written before it may be withheld (also entirely, when optimisation itself hits the error)
        return (ck == c0 and "[error]" in ek and (o0 or "").startswith(ok_ or "")
                and e0.split("[error]")[0].startswith(ek.split("[error]")[0]))
    if o0 is None or ok_ is None:
        return c0 == ck and o0 == ok_ and e0.split("[error]")[0] == ek.split("[error]")[0]
    return ck == c0 and ok_ == o0 and ek == e0


def classify(prog, level):
    return "level%d" % level


def run(prop, tier, seed):
    V = C.Verdict(prop, tier, seed)
    rng = random.Random(seed)
    pc = C.proof_check(prop)
    C.build_driver()
    C.build_harness()
    C.build_repo_bin()
    quick = tier == "quick"
    n = 260 if quick else 6000
    cases = gen_cases(rng, n)
    hist = Counter()
    r0 = run_bin(cases, 0, "a")
    r1 = run_bin(cases, 1, "b")
    r2 = run_bin(cases, 2, "c")
    # library level: optimize() result against the L1 model
    st0, st1 = {}, {}
    # the bulk-output programs (thousands of commands) are compared between the levels of the binary only: the extracted
    # optimiser model is quadratic in the length of the pre-executed prefix
    heavy = [tag == "bulk-output" for tag, _, _ in cases]
    light = [c for c, h in zip(cases, heavy) if not h]

    def spread(res, filler):
        it = iter(res)
        return [filler if h else next(it) for h in heavy]
    for lv in (1, 2):
        st0[lv] = C.run_impl(["opt state %d %s" % (lv, G.cps(p)) for _, p, _ in cases])
        st1[lv] = spread(C.run_model(["opt state %d %s" % (lv, G.cps(p)) for _, p, _ in light]), None)
        st1[lv] = [a if (b is None or C.timed_out(a, b)) else b for a, b in zip(st0[lv], st1[lv])]
        st0[lv] = [b if C.timed_out(a) else a for a, b in zip(st0[lv], st1[lv])]
    m = {lv: spread(C.run_model(["opt run %d %d %s %s" % (lv, 4000 if quick else 8000, G.cps(p), G.cps(s)) for _, p, s in light]), "END:fuel|o=|e=")
         for lv in (1, 2)}
    distinct = set()
    propfail, corr = [], []
    for k, (tag, prog, stdin) in enumerate(cases):
        hist[tag if tag in ("random", "scripted", "bigarith") else "template"] += 1
        if r0[k][0] == "timeout":
            hist["nonterminating"] += 1
        if "log=0|" not in st0[2][k] and st0[2][k].startswith("ok"):
            hist["pre-executed-prefix"] += 1
        if st0[2][k].startswith("ok") and not st0[2][k].endswith("rest="):
            hist["residual-nonempty"] += 1
        if len(prog) > 8:
            distinct.add((prog, stdin))
        for lv, rk in ((1, r1), (2, r2)):
            if not same_behaviour(r0[k], rk[k]):
                propfail.append((lv, prog, stdin, r0[k], rk[k]))
            else:
                if st0[lv][k] != st1[lv][k]:
                    corr.append((lv, prog, stdin, st0[lv][k], st1[lv][k], "optimize() result"))
                else:
                    end, wo, we = E.spec_fields(m[lv][k])
                    cls, o, e = rk[k]
                    if end not in ("fuel",) and cls != "timeout" and not end.startswith("err") and (o != wo or not e.startswith(we)):
                        corr.append((lv, prog, stdin, repr(rk[k]), m[lv][k], "run at level"))
    seen = set()
    for lv, prog, stdin, a, b in propfail[:40]:
        def bad(p, s):
            x = run_bin([("", p, s)], 0, "s")[0]
            y = run_bin([("", p, s)], lv, "s")[0]
            return not same_behaviour(x, y)
        sp, ss = E.shrink_case(prog, stdin, bad, budget=60)
        x = run_bin([("", sp, ss)], 0, "s")[0]
        y = run_bin([("", sp, ss)], lv, "s")[0]
        ident = "level%d:%s" % (lv, diff_kind(x, y, sp))
        if ident in seen:
            continue
        seen.add(ident)
        V.violation(ident, "program %r with stdin %r behaves differently at -O%d: unoptimised %r, optimised %r" % (sp, ss, lv, x, y),
                    dict(program=sp, stdin=ss, level=lv, unoptimised=x, optimised=y, original_program=prog))
    if corr and not propfail:
        lv, prog, stdin, a, b, why = corr[0]
        V.violation("correspondence:" + prop, "optimiser model/implementation correspondence no longer checks (%s, level %d) on %r" % (why, lv, prog),
                    dict(correspondence="L0 optimize::optimize / hyeong run -O%d vs L1 coq/Model/Opt.v" % lv, program=prog, stdin=stdin, impl=a, model=b,
                         disagreements=len(corr)), found_input=False)
    if not pc["ok"]:
        V.violation("proof:" + prop, "proof obligations of %s do not check: %s" % (prop, "; ".join(pc["problems"])),
                    dict(theorem_file="coq/Props/%s.v" % prop, problems=pc["problems"]), found_input=False)
    V.coverage = dict(
        obligations=pc["obligations"], discharged=pc["discharged"], supporting_lemmas=pc["supporting_lemmas"],
        checker_cmd="make -C coq Props/%s.vo && coqc -Q coq HV coq/Props/%s.v (Print Assumptions) ; python3 tools/check.py --property %s --tier %s"
                    % (prop, prop, prop, tier),
        trusted_base=C.TRUSTED_BASE, axioms=pc["axioms"], proof_files=pc["files"],
        evaluations=len(cases) * 7, distinct_nontrivial=len(distinct),
        rule="optimiser templates (two-operand 흣/흡, print before a bail-out, backward jump after the last stack switch, loops of 99-250 "
             "iterations, reads in the middle, exits, encoding errors) plus random programs x stratified stdin; each is run through "
             "`hyeong run -O0/-O1/-O2` (compared pairwise on stdout after the log line, stderr, exit class; prefix-compatibility on timeouts), "
             "and optimize::optimize's result (stacks, captured output, labels, residual code) is compared with the extracted L1 model at both levels",
        samples=[dict(tag=cases[i][0], program=cases[i][1][:100], stdin=cases[i][2][:20], O0=repr(r0[i])[:120], O2_state=st0[2][i][:160])
                 for i in range(0, len(cases), max(1, len(cases) // 6))][:8],
        histogram=dict(hist), correspondence_disagreements=len(corr), property_failures=len(propfail))
    V.assumptions = ["the L1 optimiser model is hand-written; its tie to /repo is the differential run reported here",
                     "oracle for the failure search: the unoptimised run of the same binary (whose agreement with the language definition is C01)"]
    return V.finish()


def diff_kind(x, y, prog):
    if x[0] != y[0]:
        return "exit-status"
    if x[1] != y[1]:
        if x[1] is not None and y[1] is not None and len(y[1]) > len(x[1]) and y[1].startswith(x[1][:1]):
            return "stdout-extra"
        return "stdout"
    return "stderr"


def replay(prop, path):
    import json
    r = json.load(open(path))
    C.build_repo_bin()
    p, s = r.get("program", ""), r.get("stdin", "")
    for lv in (0, 1, 2):
        print("-O%d:" % lv, run_bin([("", p, s)], lv, "r")[0])
    return 0
