"""C14: Unicode text passes through a program unchanged (interpreter at each level and compiled)."""
import os
import random
from collections import Counter

from . import common as C
from . import proggen as G

BIG = "혀" + "어" * 1086 + "엉" + "." * 1024          # a 형-kind command whose count 1088*1024 exceeds U+10FFFF
CAT = "흑 " + BIG + "♥ 항... 항. 흑 " + BIG + "?♥?"   # copy stdin to stdout until end of input (non-empty input)
NAN_TEXT = "너무 커엇..."


def copy_n(n):
    return "흑" + " 항." * n


BOUNDARY = "\u0000\u007f\u0080߿ࠀ퟿￿\U00010000\U0010ffff"
TEXTS = ["A", "AB\n", "\n", "\n\n\n", "a\n\nb", "no final newline", "with final newline\n", "\r\n\r\n", BOUNDARY, BOUNDARY + "\n" + BOUNDARY,
         "\u0000", "\u0000\n\u0000", "한글 🙂 é ß\n둘째 줄\n", "x" * 3000 + "\n", "\n".join(str(i) for i in range(200)) + "\n",
         "\U0010ffff" * 50, "퟿\n", "tab\there\n", "\u0085   \n",
         # characters that text tools strip, merge or transform, at the start / end of lines and alone on a line
         "\ufeffabc\n\ufeff\n", "\ufeff", "a\ufeffb\n", "  lead and trail \t\n", "e\u0301\n\u1112\u1167\u11bc\n", "\u200b\n\u200d", "\x1b[0m\n",
         "\x7f\x08\n", "\u2028\u2029\n", "\u00a0\n", "A\r", "\rB\n", "\n\r\n\r", "İi\n", "ß\n", "\ufffe\uffff\n", "\x1a\n", "\x04",
         "é" * 40000 + "\n", "a" * 65535 + "é\n", "a" * 65534 + "🙂b\n", "🙂" * 20000, "한" * 30000 + "\n" + "x" * 70000]


def gen_text(rng):
    n = rng.choice([1, 2, 5, 20, 80])
    out = []
    for _ in range(n):
        r = rng.random()
        if r < 0.3:
            out.append(chr(rng.randint(0x20, 0x7e)))
        elif r < 0.45:
            out.append("\n")
        elif r < 0.6:
            out.append(rng.choice(BOUNDARY))
        else:
            c = rng.randint(0, 0x10ffff)
            if 0xd800 <= c <= 0xdfff:
                c = 0xac00
            out.append(chr(c))
    return "".join(out)


def run(prop, tier, seed):
    V = C.Verdict(prop, tier, seed)
    rng = random.Random(seed)
    pc = C.proof_check(prop)
    C.build_driver()
    C.build_harness()
    C.build_repo_bin()
    rlib = C.build_numlib()
    quick = tier == "quick"
    texts = TEXTS + [gen_text(rng) for _ in range(12 if quick else 400)]
    d = C.scratch_dir("c14")
    hist = Counter()
    # (program tag, program text, stdin text, expected stdout text)
    jobs = []
    long_jobs = []
    first_long = True
    for t in texts:
        if len(t) > 5000:
            # very long lines: a short fixed copy reads the whole line; the loop copy is expensive, one per quick run
            long_jobs.append(("copy<", copy_n(2), t, t[:2]))
            if first_long or not quick:
                long_jobs.append(("cat", CAT, t, t))
            first_long = False
            continue
        if t:
            jobs.append(("cat", CAT, t, t))
        n = len(t)
        for k in sorted(set([0, 1, n // 2, n, n + 1])):
            if k > 400:
                continue
            exp = t[:k] + NAN_TEXT * max(0, k - n)
            jobs.append(("copy%s" % ("=" if k == n else "<" if k < n else ">"), copy_n(k), t, exp))
    if quick:
        # every text through the copy loop, and a third of the fixed-count copies
        jobs = [j for k, j in enumerate(jobs) if j[0] == "cat" or k % 3 == 0]
    jobs += long_jobs
    # compiled executables: one per distinct program and level
    progs = sorted(set(p for _, p, _, _ in jobs))
    comp_jobs = [(p, lv) for p in progs for lv in (0, 1, 2)]
    if quick:
        keep = [CAT, copy_n(1), copy_n(2), copy_n(10), copy_n(11)]
        comp_jobs = [(p, lv) for (p, lv) in comp_jobs if p in keep]
    srcs = C.run_impl(["compile %d %s" % (lv, G.cps(p)) for p, lv in comp_jobs])
    exes = {}

    def build(i):
        p, lv = comp_jobs[i]
        r = srcs[i]
        if not r.startswith("src:"):
            return None
        exe = os.path.join(d, "x%d" % i)
        ok, msg = C.rustc_program(bytes.fromhex(r[4:]).decode("utf-8"), exe, rlib)
        return exe if ok else None
    built = C.pmap(build, range(len(comp_jobs)))
    for (p, lv), exe in zip(comp_jobs, built):
        exes[(p, lv)] = exe
    files = {}
    for i, p in enumerate(progs):
        path = os.path.join(d, "u%d.hyeong" % i)
        with open(path, "w", encoding="utf-8") as fh:
            fh.write(p)
        files[p] = path

    def runall(j):
        tag, prog, stdin, exp = j
        sb = stdin.encode("utf-8")
        out = {}
        for lv in (0, 1, 2):
            cls, o, e = C.run_hyeong(["run", "-O%d" % lv, files[prog]], sb, timeout=120)
            out["run-O%d" % lv] = (cls, C.split_run_stdout(o), e)
            exe = exes.get((prog, lv), "absent")
            if exe == "absent":
                continue
            if exe is None:
                out["compiled-%d" % lv] = ("rustc-failed", b"", b"")
            else:
                out["compiled-%d" % lv] = C.run_exe(exe, sb, timeout=120)
        return out
    results = C.pmap(runall, jobs)
    # the model's byte-level prediction at level 0
    mlines = ["cli 0 200000 1 %s %s" % (",".join(str(b) for b in p.encode("utf-8")), ",".join(str(b) for b in s.encode("utf-8")) or "")
              if len(s) <= 5000 else "cli 0 1 u - " for _, p, s, _ in jobs]    # the extracted model is not run on the very long texts
    model = C.run_model(mlines)
    distinct = set()
    fails, corr = [], []
    for (tag, prog, stdin, exp), res, m in zip(jobs, results, model):
        hist[tag] += 1
        if len(stdin) >= 2:
            distinct.add((tag, stdin))
        want = exp.encode("utf-8")
        for cfg, (cls, o, e) in res.items():
            hist[cfg] += 1
            if cls != "exit0" or o != want or e != b"":
                fails.append((tag, prog, stdin, cfg, cls, o, e, want))
        if len(stdin) > 5000:
            pass
        elif m.startswith("exit:0|"):
            mo = bytes(int(x) for x in m.split("|")[1][2:].split(".")) if m.split("|")[1][2:] else b""
            if mo != want:
                corr.append((tag, stdin, m[:200]))
        elif m != "running" and not C.timed_out(m):
            corr.append((tag, stdin, m[:200]))
    seen = set()
    for tag, prog, stdin, cfg, cls, o, e, want in fails[:30]:
        ident = "passthrough:%s:%s" % (tag.rstrip("=<>"), cfg)
        if ident in seen:
            continue
        seen.add(ident)
        V.violation(ident, "%s program under %s on stdin %r: status %s, stdout %r, expected %r, stderr %r"
                    % (tag, cfg, stdin[:60], cls, (o or b"")[:80], want[:80], (e or b"")[:200]),
                    dict(program=prog if len(prog) < 300 else "CAT", family=tag, stdin=stdin, configuration=cfg, status=cls,
                         stdout=list(o or b"")[:400], expected=list(want)[:400]))
    if corr and not fails:
        tag, stdin, m = corr[0]
        V.violation("correspondence:" + prop, "CLI/interpreter model no longer predicts the pass-through output for %s on %r: %s" % (tag, stdin[:40], m),
                    dict(correspondence="L1 coq/Model/Cli.v (run_cli level 0) vs expected text", family=tag, stdin=stdin, model=m), found_input=False)
    if not pc["ok"]:
        V.violation("proof:" + prop, "proof obligations of %s do not check: %s" % (prop, "; ".join(pc["problems"])),
                    dict(theorem_file="coq/Props/%s.v" % prop, problems=pc["problems"]), found_input=False)
    V.coverage = dict(
        obligations=pc["obligations"], discharged=pc["discharged"], supporting_lemmas=pc["supporting_lemmas"],
        checker_cmd="make -C coq Props/%s.vo && coqc -Q coq HV coq/Props/%s.v (Print Assumptions) ; python3 tools/check.py --property %s --tier %s"
                    % (prop, prop, prop, tier),
        trusted_base=C.TRUSTED_BASE + ["rustc and the number-only build of /repo for the compiled configurations"],
        axioms=pc["axioms"], proof_files=pc["files"],
        evaluations=sum(len(r) for r in results) + len(jobs), distinct_nontrivial=len(distinct),
        rule="program families COPY n (흑 followed by n times 항.) for n in {0, 1, |t|/2, |t|, |t|+1} and the copy-until-end-of-input loop CAT, on "
             "texts covering every UTF-8 length boundary, U+0000, U+D7FF/U+E000, U+10FFFF, empty lines, missing final newline, CRLF, a 3000-"
             "character line, 200 lines, plus random scalar sequences; each under `hyeong run -O0/-O1/-O2` and as compiled executables of "
             "levels 0-2; stdout must be byte-identical to the expected text (the input, its prefix, or the input followed by the NaN text when "
             "the program reads past the end); texts of at least two characters are non-trivial",
        samples=[dict(family=jobs[i][0], stdin=jobs[i][2][:30], configs=sorted(results[i].keys())) for i in range(0, len(jobs), max(1, len(jobs) // 6))][:8],
        histogram=dict(hist), correspondence_disagreements=len(corr), property_failures=len(fails))
    V.assumptions = ["the copy loop is claimed for non-empty inputs: no Hyeong program can print on non-empty input and print nothing on empty input (every command "
                     "executes at least once before any jump back), so on empty input CAT prints the NaN text; the fixed-count family with n = 0 covers the empty text",
                     "the real stdin/stdout byte path and the compiled executables are observed, not proved"]
    for exe in built:
        if exe:
            try:
                os.remove(exe)
            except OSError:
                pass
    return V.finish()


def replay(prop, path):
    import json
    r = json.load(open(path))
    C.build_repo_bin()
    d = C.scratch_dir("c14r")
    prog = CAT if r.get("program") == "CAT" else r.get("program", "")
    p = os.path.join(d, "r.hyeong")
    open(p, "w", encoding="utf-8").write(prog)
    for lv in (0, 1, 2):
        print(lv, C.run_hyeong(["run", "-O%d" % lv, p], r.get("stdin", "").encode("utf-8"), timeout=20))
    return 0
