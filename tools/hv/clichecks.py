"""C13: the command-line tool ends in a defined way on any file and any input."""
import os
import random
from collections import Counter

from . import common as C
from . import proggen as G
from . import parsegen as P
from . import scripted as S


def gen_bytes(rng, kind):
    if kind == "comment":
        # a program with plain Korean prose before / after it: start syllables after the last ending syllable, endings, fillers
        prog = G.render(G.gen_program(rng, rng.choice([1, 2, 4])))
        pre = rng.choice(["", "", rng.choice(P.KOREAN_PROSE) + "\n"])
        post = rng.choice([" ", "\n", " # "]) + rng.choice(P.KOREAN_PROSE)
        return (pre + prog + post + rng.choice(["", "\n"])).encode("utf-8")
    if kind == "truncated":
        # a valid file cut inside its last character, or ending in a lone lead byte (Latin-1 text, an interrupted download)
        base = (G.render(G.gen_program(rng, 2)) + rng.choice(["", " ", "\n", " 끝", " é", " 🙂"])).encode("utf-8")
        r = rng.random()
        if r < 0.6:
            cut = rng.choice([1, 1, 2, 3])
            return base[:max(0, len(base) - cut)]
        return base + rng.choice([b"\xc3", b"\xe9", b"\xe2\x82", b"\xf0\x9f", b"\xf0\x9f\x98", b"\xed", b"\xf4\x8f\xbf", b"caf\xe9"])
    if kind == "layout":
        return G.layout_program(rng).encode("utf-8")
    if kind == "bigarith":
        return S.bigarith(rng).encode("utf-8")
    if kind == "prog":
        # a program, sometimes preceded by characters a text editor may put first: byte order mark, no-break space, astral
        pre = rng.choice(["", "", "", "\ufeff", "\ufeff\ufeff", "\u00a0", "\U0001f642", "\u2028", "\ufeff\n"])
        return (pre + G.render(G.gen_program(rng))).encode("utf-8")
    if kind == "noise":
        return P.gen_malformed(rng, rng.choice([0, 3, 20, 100])).encode("utf-8")
    if kind == "unstructured":
        return P.gen_unstructured(rng, rng.choice([1, 5, 30, 120])).encode("utf-8")
    if kind == "empty":
        return rng.choice([b"", b"", b"\xef\xbb\xbf", b"\n", b" "])
    # invalid UTF-8 of every flavour
    base = bytearray(G.render(G.gen_program(rng, 3)).encode("utf-8"))
    bad = rng.choice([b"\x80", b"\xc0\x80", b"\xc1\xbf", b"\xe0\x80\x80", b"\xed\xa0\x80", b"\xf0\x80\x80\x80", b"\xf4\x90\x80\x80",
                      b"\xf5\x80\x80\x80", b"\xff", b"\xe2\x82", b"\xf0\x9f\x98", b"\xc3", b"\xed\xbf\xbf", b"\xfe"])
    pos = rng.randrange(len(base) + 1)
    return bytes(base[:pos]) + bad + bytes(base[pos:])


def gen_stdin_bytes(rng):
    r = rng.random()
    if r < 0.55:
        return G.gen_stdin(rng).encode("utf-8")
    if r < 0.7:
        return b""
    bad = rng.choice([b"\x80", b"\xc3", b"\xed\xa0\x80", b"\xff\n", b"ok\n\xf0\x9f\n", b"\xc0\xaf", b"a\x00b\xfe"])
    pre = rng.choice([b"", b"line\n", b"x"])
    return pre + bad + rng.choice([b"", b"\nmore\n"])


def readers(rng):
    """programs that read stdin so that bad input is actually consumed; programs that hit an encoding error"""
    return rng.choice(["형" + "." * 65 + " 항. 혀어어어어어어엉" + "." * 6912 + " 항.", "혀어어어어어어엉" + "." * 6912 + " 항..",
                       "흑 항. 혀어어어어어어엉" + "." * 6912 + " 항.","흑 항. 항. 항.", "흑 하아앙... 흑... 항.", "흑 항. 흑 항. 흑 항. 흑 항.", "형. 흑 항.. 항.. 항.",
                       "흑 " + " ".join(["항."] * 12)])


def run(prop, tier, seed):
    V = C.Verdict(prop, tier, seed)
    rng = random.Random(seed)
    pc = C.proof_check(prop)
    C.build_driver()
    C.build_repo_bin()
    quick = tier == "quick"
    n = 330 if quick else 8000
    d = C.scratch_dir("c13")
    jobs = []
    for i, (tag, prog, _) in enumerate(G.boundary_programs()):
        for sub in (["run0", "run1", "run2"] if quick else ["run0", "run1", "run2", "check"]):
            if quick and (i + len(sub)) % 2 and sub != "run0":
                continue
            jobs.append(("boundary", "b%d_%s.hyeong" % (i, sub), prog.encode("utf-8"), False, sub, b""))
    for k in range(n):
        r = rng.random()
        kind = ("prog" if r < 0.2 else "bigarith" if r < 0.27 else "layout" if r < 0.35 else "comment" if r < 0.43 else "noise" if r < 0.5
                else "unstructured" if r < 0.56 else "empty" if r < 0.59 else "badutf8" if r < 0.72 else "truncated" if r < 0.82 else "reader")
        fb = readers(rng).encode("utf-8") if kind == "reader" else gen_bytes(rng, kind)
        name = rng.choice(["p%d.hyeong"] * 12 + ["p%d.txt", "p%d", "p%d.hyeong.bak", "p%d.HYEONG"]) % k
        missing = rng.random() < 0.04
        sub = rng.choice(["run0", "run1", "run2", "check"] + (["check"] * 4 if kind in ("layout", "comment") else []))
        sb = gen_stdin_bytes(rng)
        jobs.append((kind, name, fb, missing, sub, sb))

    def real(j):
        kind, name, fb, missing, sub, sb = j
        path = os.path.join(d, name)
        if not missing:
            with open(path, "wb") as fh:
                fh.write(fb)
        elif os.path.exists(path):
            os.remove(path)
        args = ["check", path] if sub == "check" else ["run", "-O" + sub[3], path]
        return C.run_hyeong(args, sb, timeout=3)
    reals = C.pmap(real, jobs)
    lines = []
    for kind, name, fb, missing, sub, sb in jobs:
        ext = "u" if missing else ("1" if name.endswith(".hyeong") else "0")
        lv = "0" if sub == "check" else sub[3]
        lines.append("cli %s 30000 %s %s %s" % (lv, ext, ",".join(str(b) for b in fb) or "-", ",".join(str(b) for b in sb)))
    model = C.run_model(lines)
    hist = Counter()
    distinct = set()
    fails, corr = [], []
    for j, (cls, out, err), m in zip(jobs, reals, model):
        kind, name, fb, missing, sub, sb = j
        hist["file:" + kind] += 1
        hist["cmd:" + sub] += 1
        gerr = err.decode("utf-8", "replace")
        if len(fb) > 2:
            distinct.add((fb, sb, sub, name.split(".", 1)[-1]))
        defined = cls in ("exit0", "exit1") and "panicked at" not in gerr
        if cls == "exit1" and gerr.strip() == "" and not m.startswith("exit:1"):
            defined = False        # status 1 without any diagnostic (the wording of diagnostics is not fixed by the property)
        if cls == "timeout":
            hist["timeout"] += 1
            continue
        if not defined:
            fails.append((j, cls, gerr))
            continue
        # correspondence with the model's class (for `check` the model has no listing: status only)
        if m == "running" or C.timed_out(m):
            continue
        mk = m.split("|")[0]
        if sub == "check":
            want = "exit0" if (mk.startswith("exit") or mk.startswith("diag:enc") or mk.startswith("diag:utf8stdin")) else "exit1"
            if cls != want:
                corr.append((j, cls, m))
            hist["class:" + ("exit0" if want == "exit0" else mk)] += 1
            continue
        hist["class:" + mk.split(":")[0] + (":" + mk.split(":")[1] if mk.startswith("diag") else "")] += 1
        if mk.startswith("exit:"):
            want = "exit" + mk[5:]
            po = C.split_run_stdout(out)
            mo = bytes(int(x) for x in m.split("|")[1][2:].split(".")) if m.split("|")[1][2:] else b""
            if cls != want or po != mo:
                corr.append((j, cls, m))
        else:
            if cls != "exit1" or gerr.strip() == "":
                corr.append((j, cls, m))
    seen = set()
    for j, cls, gerr in fails[:20]:
        kind, name, fb, missing, sub, sb = j
        ident = "cli:%s:%s" % (sub if sub == "check" else "run", "panic" if "panicked" in gerr else cls)
        if ident in seen:
            continue
        seen.add(ident)
        V.violation(ident, "`hyeong %s` on file %r (%d bytes) with %d stdin bytes ended with %s, stderr %r"
                    % (sub, name, len(fb), len(sb), cls, gerr[-300:]),
                    dict(subcommand=sub, file_name=name, file_bytes=list(fb), stdin_bytes=list(sb), status=cls, stderr=gerr))
    if corr and not fails:
        j, cls, m = corr[0]
        V.violation("correspondence:" + prop, "CLI model/implementation correspondence no longer checks: `hyeong %s` on %r ended with %s, model says %s"
                    % (j[4], j[1], cls, m[:200]),
                    dict(correspondence="L0 hyeong run/check vs L1 coq/Model/Cli.v", subcommand=j[4], file_name=j[1], file_bytes=list(j[2]),
                         stdin_bytes=list(j[5]), status=cls, model=m, disagreements=len(corr)), found_input=False)
    if not pc["ok"]:
        V.violation("proof:" + prop, "proof obligations of %s do not check: %s" % (prop, "; ".join(pc["problems"])),
                    dict(theorem_file="coq/Props/%s.v" % prop, problems=pc["problems"]), found_input=False)
    V.coverage = dict(
        obligations=pc["obligations"], discharged=pc["discharged"], supporting_lemmas=pc["supporting_lemmas"],
        checker_cmd="make -C coq Props/%s.vo && coqc -Q coq HV coq/Props/%s.v (Print Assumptions) ; python3 tools/check.py --property %s --tier %s"
                    % (prop, prop, prop, tier),
        trusted_base=C.TRUSTED_BASE, axioms=pc["axioms"], proof_files=pc["files"],
        evaluations=len(jobs) * 2, distinct_nontrivial=len(distinct),
        rule="file contents: rendered programs, random Unicode, unstructured significant characters, empty, programs with every flavour of "
             "invalid UTF-8 inserted (truncated, overlong, surrogate, > U+10FFFF, stray continuation, 0xFE/0xFF), programs that read stdin; "
             "file names with and without .hyeong, missing files; stdin bytes valid and invalid; `run -O0/1/2` and `check`; the process must "
             "end with status 0/1 without a panic message and status 1 only with a diagnostic (or when the program asked for it); the class "
             "and the program's stdout bytes are compared with the extracted CLI model",
        samples=[dict(cmd=jobs[i][4], name=jobs[i][1], file=jobs[i][2][:40].decode("utf-8", "replace"), stdin=jobs[i][5][:20].decode("utf-8", "replace"),
                      status=reals[i][0], model=model[i][:60]) for i in range(0, len(jobs), max(1, len(jobs) // 6))][:8],
        histogram=dict(hist), correspondence_disagreements=len(corr), property_failures=len(fails))
    V.assumptions = ["aborts that originate outside the modelled logic (stack exhaustion on deep Drop, out-of-memory, SIGPIPE, clap/termcolor internals) are exercised, not proved",
                     "UTF-8 decoding of std is entered as an explicit function (coq/Model/Utf8.v)"]
    return V.finish()


def replay(prop, path):
    import json
    r = json.load(open(path))
    C.build_repo_bin()
    d = C.scratch_dir("c13r")
    p = os.path.join(d, r.get("file_name", "r.hyeong"))
    open(p, "wb").write(bytes(r.get("file_bytes", [])))
    sub = r.get("subcommand", "run0")
    args = ["check", p] if sub == "check" else ["run", "-O" + sub[3], p]
    print(C.run_hyeong(args, bytes(r.get("stdin_bytes", [])), timeout=5))
    return 0
