"""Parser layer: renderer of command lists with noise (expected result known by construction),
unstructured and malformed text streams, readers of the area renderings."""

SINGLE = "형항핫흣흡흑"
START = "혀하흐"
ENDS = "엉앙앗읏읍윽"
FILLER = "어아으"
HEARTS = "♥❤💕💖💗💘💙💚💛💜💝♡"
DOT3 = "…⋯⋮"
WS = [" ", "\t", "\n", "\r", "\u0085", " ", "　", " ", " ", "\n"]
OTHER_HANGUL = "가나다라마바사응웅읭힣각"
ASCII = "abcXYZ019,;:'\"()[]{}<>+-*/=_#@$%^&|~`\\"
OTHER = "あ漢字éß🙂😀∀→𝔸­​́"
# characters just outside every class the grammar distinguishes (none of them means anything): the code points around the
# Hangul-syllable block and the jamo blocks, look-alikes and code-point neighbours of the dots, hearts, `?` and `!`
EDGE_OTHER = ("\uABFF\uD7A4\uD7A5\uD7AF\uD7B0\uD7FB\u1100\u11FF\u3131\u318E\uFFA1" + ",\u00B7\u2024\u2025\u2027\u22ED\u22F0\u22F1\uFE19\uFF0E\u3002"
              + "\u2660\u2662\u2664\u2666\u2763\u2765\U0001F493\U0001F494\U0001F49E\U0001F49F\U0001F5A4\U0001F90D"
              + "\uFF1F\uFF01\u00BF\u00A1\u203C\u2047\u2753\u2757\u037E")
OTHER += EDGE_OTHER
# sequences that text tools merge, split or drop (none of them means anything to the grammar): canonical decompositions of the
# meaningful syllables into conjoining jamo, compatibility jamo, variation selectors / joiners / combining marks (after any
# character), a byte order mark in the middle of the text
import unicodedata as _ud
NFD_SEQS = [_ud.normalize("NFD", c) for c in SINGLE + START + ENDS + FILLER] + ["\u1112\u1167\u11bc", "\u314e\u3155\u3147", "e\u0301"]
JOINERS = ["\ufe0f", "\ufe0e", "\u200d", "\u200b", "\u0301", "\u20e3", "\ufeff", "\u00ad"]
# characters whose code point, cut to 16 or 8 bits, is that of a meaningful character (a narrowing cast makes them aliases)
TRUNC_ALIASES = "".join(chr(ord(c) + k) for c in SINGLE + START + ENDS + "\u2665\u2764\u2661" for k in (0x10000, 0x20000)) + \
                "".join(chr(ord(c) + k) for c in ".?!" for k in (0x100, 0x10000, 0x2600))
OTHER += TRUNC_ALIASES[::3]
# Hangul syllables next to the ones with a meaning (plain syllables: they count inside a command and nowhere else)
_special = set(SINGLE + START + ENDS + FILLER)
OTHER_HANGUL += "".join(sorted(set(chr(ord(c) + d) for c in _special for d in (-1, 1, -28, 28) if chr(ord(c) + d) not in _special
                                   and 0xAC00 <= ord(c) + d <= 0xD7A3)))


def class_of_kind(k):
    return 0 if k == 0 else (1 if k <= 2 else 2)


def end_class(c):
    i = ENDS.find(c)
    return -1 if i < 0 else class_of_kind(i)


def area_debug(tree):
    """tree: list of `!`-groups, each a list of slots (heart index 0..11 or None)"""
    def slot(s):
        return "_" if s is None else HEARTS[s]

    def bang(sl):
        return slot(sl[0]) if len(sl) == 1 else "!" + slot(sl[0]) + bang(sl[1:])

    def qu(qs):
        return bang(qs[0]) if len(qs) == 1 else "?" + bang(qs[0]) + qu(qs[1:])
    return qu(tree)


def area_display(tree):
    def slot(s):
        return "_" if s is None else HEARTS[s]

    def bang(sl):
        return slot(sl[0]) if len(sl) == 1 else "[" + slot(sl[0]) + "]![" + bang(sl[1:]) + "]"

    def qu(qs):
        return bang(qs[0]) if len(qs) == 1 else "[" + bang(qs[0]) + "]?[" + qu(qs[1:]) + "]"
    return qu(tree)


def read_display(s):
    """inverse of Area's Display on grammar-shaped trees: returns the Debug (prefix) string"""
    pos = 0

    def node():
        nonlocal pos
        if s[pos] == "[":
            pos += 1
            l = node()
            assert s[pos] == "]"
            pos += 1
            op = s[pos]
            assert op in "?!"
            pos += 1
            assert s[pos] == "["
            pos += 1
            r = node()
            assert s[pos] == "]"
            pos += 1
            return op + l + r
        c = s[pos]
        pos += 1
        assert c == "_" or c in HEARTS
        return c
    out = node()
    assert pos == len(s)
    return out


def gen_tree(rng, big=False):
    r = rng.random()
    if r < 0.35:
        return [[None]]
    if r < 0.5:
        return [[rng.randrange(12)]]
    nq = rng.choice([1, 1, 2, 2, 3, 4]) if not big else rng.randint(1, 60)
    tree = []
    for _ in range(nq):
        nb = rng.choice([1, 1, 2, 3]) if not big else rng.randint(1, 40)
        tree.append([rng.choice([None, rng.randrange(12), rng.randrange(12), 0, 11]) for _ in range(nb)])
    return tree


def gen_cmd(rng, big=False):
    kind = rng.randrange(6)
    syl = rng.choice([1, 1, 2, 3, 4, rng.randint(1, 9)]) if not big else rng.choice([1, 2, rng.randint(3, 4000)])
    dots = rng.choice([0, 1, 2, 3, 4, rng.randint(0, 12)]) if not big else rng.choice([0, 3, rng.randint(0, 4000)])
    return (kind, syl, dots, gen_tree(rng, big and rng.random() < 0.3))


def noise(rng, classes, n):
    out = []
    for _ in range(n):
        cl = rng.choice(classes)
        if cl == "ws":
            out.append(rng.choice(WS))
        elif cl == "hangul":
            out.append(rng.choice(OTHER_HANGUL))
        elif cl == "ascii":
            out.append(rng.choice(ASCII))
        elif cl == "other":
            r = rng.random()
            out.extend(rng.choice(NFD_SEQS) if r < 0.08 else rng.choice(JOINERS) if r < 0.16 else rng.choice(TRUNC_ALIASES) if r < 0.22 else rng.choice(OTHER))
        elif cl == "end":
            out.append(rng.choice(ENDS))
        elif cl == "dot":
            out.append(rng.choice("." + DOT3))
        elif cl == "area":
            out.append(rng.choice("?!" + HEARTS))
        elif cl == "filler":
            out.append(rng.choice(FILLER))
        elif cl == "single":
            out.append(rng.choice(SINGLE))
        elif cl == "start":
            out.append(rng.choice(START))
    return out


def render(rng, cmds, noisy=True):
    """Returns (text, expected) where expected is the list of
    (kind, syl, dots, area_debug, raw) — locations are added by locate()."""
    pieces = []   # (chars, cmd_index or None, marks first char of head)
    nz = (lambda classes, k: noise(rng, classes, rng.choice([0, 0, 1, 2, k]))) if noisy else (lambda classes, k: [])
    text = nz(["ws", "hangul", "ascii", "other", "end", "dot", "area", "filler"], 5)
    expected = []
    heads = []
    for (kind, syl, dots, tree) in cmds:
        raw = []
        heads.append(len(text))
        if syl == 1:
            text.append(SINGLE[kind])
            raw.append(SINGLE[kind])
        else:
            cl = class_of_kind(kind)
            text.append(START[cl])
            raw.append(START[cl])
            for _ in range(syl - 2):
                text.extend(nz(["ws", "ascii", "other", "dot", "area"], 2))
                # a counted Hangul syllable that is not a terminator of this class
                while True:
                    c = rng.choice(FILLER[cl] * 6 + OTHER_HANGUL + SINGLE + START + ENDS) if noisy else FILLER[cl]
                    if end_class(c) != cl:
                        break
                text.append(c)
                raw.append(c)
            text.extend(nz(["ws", "ascii", "other", "dot", "area"], 2))
            text.append(ENDS[kind])
            raw.append(ENDS[kind])
        # dots
        left = dots
        while left > 0:
            text.extend(nz(["ws", "hangul", "ascii", "other", "end", "filler"], 2))
            if left >= 3 and (rng.random() < 0.4 if noisy else False):
                c = rng.choice(DOT3)
                left -= 3
            else:
                c = "."
                left -= 1
            text.append(c)
            raw.append(c)
        text.extend(nz(["ws", "hangul", "ascii", "other", "end", "filler"], 2))
        # area
        toks = []
        for qi, grp in enumerate(tree):
            if qi:
                toks.append("?")
            for si, s in enumerate(grp):
                if si:
                    toks.append("!")
                if s is not None:
                    toks.append(HEARTS[s])
                    if noisy and rng.random() < 0.3:
                        toks.extend(rng.choice(HEARTS) for _ in range(rng.randint(1, 3)))   # redundant hearts
        for t in toks:
            text.append(t)
            raw.append(t)
            text.extend(nz(["ws", "hangul", "ascii", "other", "end", "dot", "filler"], 2))
        expected.append([kind, syl, dots, area_debug(tree), "".join(raw)])
    # start syllables with no terminator of their class later in the text: insert at random legal places
    if noisy and rng.random() < 0.6:
        for _ in range(rng.randint(1, 4)):
            cl = rng.randrange(3)
            last = max([i for i, c in enumerate(text) if end_class(c) == cl], default=-1)
            # legal positions: after `last`, and not inside a multi-syllable head (state 1)
            cand = [p for p in range(last + 1, len(text) + 1) if not inside_head(text, heads, p)]
            if cand:
                p = rng.choice(cand)
                text.insert(p, START[cl])
                heads = [h + 1 if h >= p else h for h in heads]
    # locations
    out = []
    for h, e in zip(heads, expected):
        line = 1 + sum(1 for c in text[:h] if c == "\n")
        col = h - (max([i for i, c in enumerate(text[:h]) if c == "\n"], default=-1) + 1)
        out.append((e[0], e[1], e[2], line, col, e[3], e[4]))
    return "".join(text), out


def inside_head(text, heads, p):
    """is insertion position p strictly inside a multi-syllable head (after its start, at or before its terminator)?"""
    for h in heads:
        c = text[h]
        if c in START:
            cl = START.index(c)
            e = h + 1
            while end_class(text[e]) != cl:
                e += 1
            if h < p <= e:
                return True
    return False


def expected_line(exp):
    """canonical result line, as printed by both evaluators, without the Display column (compared separately)"""
    return "|".join("%d,%d,%d,%d,%d,%s,%s" % (k, s, d, ln, col, dotted(a), dotted(raw)) for (k, s, d, ln, col, a, raw) in exp)


def dotted(s):
    return ".".join(str(ord(c)) for c in s)


def strip_display(line):
    """drop the Display column (7th) of each command of an evaluator line"""
    if line == "":
        return ""
    out = []
    for c in line.split("|"):
        f = c.split(",")
        out.append(",".join(f[:6] + f[7:]))
    return "|".join(out)


ALPHABET = SINGLE + START + ENDS + FILLER + HEARTS[:3] + "♡" + ".…" + "?!" + " \n" + "가a"


def gen_unstructured(rng, n):
    extra = NFD_SEQS[:6] + JOINERS[:4] + [KOREAN_PROSE[0]]
    return "".join(rng.choice(extra) if rng.random() < 0.06 else rng.choice(ALPHABET) for _ in range(n))


# plain Korean text as people write it in comments: it contains start syllables (하 흐 혀), ending syllables and fillers
KOREAN_PROSE = ["하지만 이것은 주석", "흐르는 강물처럼 혀를 내밀다", "안녕하세요 아 어 으 하하하", "혀 하 흐", "끝 하", "엉뚱한 앙금 읏 윽",
                "형식은 항상 핫하다 흑흑", "하앗! 흐읏? 혀엉."]


def gen_malformed(rng, n):
    out = []
    for _ in range(n):
        r = rng.random()
        if r < 0.3:
            out.append(rng.choice(ALPHABET))
        elif r < 0.5:
            out.append(chr(rng.randint(0xAC00, 0xD7A3)))
        elif r < 0.7:
            c = rng.randint(0, 0x10FFFF)
            if 0xD800 <= c <= 0xDFFF:
                c = 0xE000
            out.append(chr(c))
        elif r < 0.73:
            out.append(rng.choice(EDGE_OTHER))
        elif r < 0.75:
            out.append(rng.choice(NFD_SEQS + JOINERS + list(TRUNC_ALIASES)))
        elif r < 0.8:
            out.append(chr(rng.choice([0, 0x7F, 0x80, 0x85, 0x7FF, 0x800, 0xFFFF, 0x10000, 0x10FFFF, 0xD7FF, 0xE000, 0x2028, 0x1680, 0x200B])))
        else:
            out.append(rng.choice(WS))
    return "".join(out)


def wire(text, layer="parse"):
    return layer + " " + ",".join(str(ord(c)) for c in text)
