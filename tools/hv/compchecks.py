"""C03: a compiled program behaves exactly like the interpreted program."""
import os
import random
from collections import Counter

from . import common as C
from . import proggen as G
from . import execchecks as E
from . import optchecks as O
from . import scripted as S


def templates():
    out = list(O.opt_templates())
    import random as _r
    # texts a format string / display layer could change, printed before and after the first read (a third of them per run)
    out += [c for k, c in enumerate(G.output_text_cases(_r.Random(7))) if k % 3 == 0]
    # edge sizes for the `build` command itself: nothing to compile, nothing left after pre-execution
    out.append(("empty-file", "\n", ""))
    out.append(("no-command", "주석만 있는 파일 abc\n", ""))
    out.append(("all-preexecuted", "형.. 형... 하앙... 항.", ""))
    out.append(("prefix-leaves-fraction", "형.. 형... 흡.... 흑.... 항..... 흑 항. 흑.... 항.", "x"))
    out.append(("prefix-leaves-negative-nan", "형..... 흣.... 흡..... 흑 항. 흑.... 항. 흑..... 항.", "y"))
    out.append(("last-preexec-has-area", "혀어어어엉.............♥ 흑❤ 항.", ""))
    out.append(("white-heart-across-boundary", "형 형 형...♥ 항.... 형...?♥? 흑 항.♡", "ABCDEFGH\n"))
    out.append(("label-into-preexec", "형.♥ 형.. 항... 흑 항.?❤ 형.♥", "ab"))
    out.append(("braces-in-output", "혀어엉" + "." * 41 + " 항. 혀어어어어엉" + "." * 25 + " 항.", ""))
    out.append(("quote-backslash-output", "혀엉" + "." * 17 + " 항. 혀어어엉" + "." * 23 + " 항. 혀엉..... 항.", ""))
    # reading programs on inputs with empty / blank lines, CRLF, missing final newline (the emitted Stack::pop refill)
    for i, sin in enumerate(["a\n\nb\n", "\n\n\n", "x\r\n\r\ny", " \t\nz", "no newline"]):
        out.append(("read-lines-%d" % i, "흑 항. 항. 항. 항. 항. 항.", sin))
    for n in (1, 2, 3, 4, 5, 7, 8, 9):
        # n area-carrying commands: shape of the dispatch tree
        out.append(("dispatch-%d" % n, " ".join("형" + "." * (i + 1) + "♥ 항." for i in range(n)), ""))
    return out


def gen_cases(rng, n):
    cases = templates()
    for _ in range(max(40, n)):
        cases.append(("scripted", S.scripted(rng), rng.choice(["", "xy", "A\nB\n", "q"])))
    for _ in range(max(6, n // 10)):
        cases.append(("bigarith", S.bigarith(rng, max_sq=4), ""))
    for _ in range(n):
        cases.append(("random", G.render(G.gen_program(rng)), G.gen_stdin(rng)))
    return cases


def behaviour_ok(spec, got, level):
    """spec = (END, out, err) from the language definition; got = (class, stdout bytes, stderr bytes) of the executable"""
    end, wo, we = spec
    cls, out, err = got
    o = out.decode("utf-8", "replace")
    e = err.decode("utf-8", "replace")
    if end == "fuel" or cls == "timeout":
        return wo.startswith(o) or o.startswith(wo)
    if end.startswith("err:enc"):
        # abnormal stop on unencodable output
        return cls == "exit101" and wo.startswith(o[:len(wo)]) and o.startswith(wo[:len(o)]) and "panicked" in e
    want = {"done": "exit0", "exit0": "exit0", "exit1": "exit1"}.get(end, "?")
    return cls == want and o == wo and e == we


def ir_of_source(src):
    """the structure of the emitted main(): what the compiler model predicts as its IR"""
    import re
    m = re.search(r"while\s+state\s*<\s*(\d+)\s*\{", src)
    blocks = int(m.group(1)) if m else 0
    body = src[m.start():] if m else ""
    k = src.find("fn main()")
    src = src[k if k >= 0 else 0:(m.start() if m else len(src))]        # the serialised pre-state sits between `fn main` and the loop
    st = re.findall(r"\n\s*state\s*=\s*(\d+)\s*;", src)
    last = re.findall(r"\n\s*last\s*=\s*(?:Option::)?(None|Some\(\s*(\d+)\s*\))\s*;", src)
    cur = re.findall(r"\n\s*cur\s*=\s*(\d+)\s*;", src)
    pts = sorted((int(a), int(b)) for a, b in re.findall(r"point\.insert\((\d+)u128, (\d+)\);", src))
    tree = re.findall(r"if\s+state\s*<\s*(\d+)\s*\{", body)
    stacks = []
    for i, body in re.findall(r"stack\.data\[(\d+)\] = vec!\[(.*?)\]\.iter\(\)", src):
        vals = re.findall(r'"((?:[^"\\]|\\.)*)", ', body)
        stacks.append((int(i), vals))
    stacks.sort()
    return "blocks=%d|start=%s|last=%s|cur=%s|points=%s|tree=%s|stacks=%s" % (
        blocks, st[0] if st else "0", (last[0][1] if last and last[0][0] != "None" else "-"), cur[0] if cur else "3",
        ",".join("%d:%d" % p for p in pts), ",".join(tree), ";".join("%d:%s" % (i, ",".join(v)) for i, v in stacks))


def ir_of_model(line):
    f = dict(x.split("=", 1) for x in line.split("|") if "=" in x)
    return "blocks=%s|start=%s|last=%s|cur=%s|points=%s|tree=%s|stacks=%s" % (
        f.get("blocks"), f.get("start"), f.get("last"), f.get("cur"), f.get("points"), f.get("tree"), f.get("stacks"))


def run(prop, tier, seed):
    V = C.Verdict(prop, tier, seed)
    rng = random.Random(seed)
    pc = C.proof_check(prop)
    C.build_driver()
    C.build_harness()
    rlib = C.build_numlib()
    quick = tier == "quick"
    n = 30 if quick else 1500
    cases = gen_cases(rng, n)
    d = C.scratch_dir("c03")
    hist = Counter()
    specs = [E.spec_fields(x) for x in C.run_model([E.case_line("spec", "run", 20000, p, s) for _, p, s in cases])]
    jobs = [(k, lv) for k in range(len(cases)) for lv in (0, 1, 2)]
    srcs = C.run_impl(["compile %d %s" % (lv, G.cps(cases[k][1])) for k, lv in jobs])
    # the same through the tool: `hyeong build --build-path <scratch> -O<level> FILE` writes hyeong-build/src/main.rs before it
    # calls cargo (which cannot resolve the git dependency offline: status 1 is expected, a panic is not); the file it writes
    # must be the source the library path emits — this ties app/build.rs (what is optimised and handed to build_source) in
    C.build_repo_bin()
    tool_cases = sorted(set(list(range(0, len(cases), max(1, len(cases) // (40 if quick else 300)))) +
                            [k for k, c in enumerate(cases) if c[0] in ("empty-file", "no-command", "all-preexecuted")]))
    tjobs = [(k, lv) for k in tool_cases for lv in (0, 1, 2)]

    def via_tool(j):
        k, lv = j
        bp = os.path.join(d, "bp%d_%d" % (k, lv))
        # an installed build directory (otherwise `build` first runs the installer, which needs the network)
        os.makedirs(os.path.join(bp, "hyeong-build", "src"), exist_ok=True)
        with open(os.path.join(bp, "hyeong-build", "Cargo.toml"), "w") as fh:
            fh.write('[package]\nname = "hyeong-build"\nversion = "0.1.0"\nedition = "2018"\n\n[dependencies]\nhyeong = { git = "https://github.com/buttercrab/hyeo-ung-lang" }\n')
        f = os.path.join(bp, "p.hyeong")
        with open(f, "w", encoding="utf-8") as fh:
            fh.write(cases[k][1])
        cls, o, e = C.run_hyeong(["build", "--build-path", bp, "-O%d" % lv, "-o", os.path.join(bp, "out.bin"), f], b"", timeout=120)
        mp = os.path.join(bp, "hyeong-build", "src", "main.rs")
        text = open(mp, encoding="utf-8").read() if os.path.exists(mp) else None
        import shutil
        shutil.rmtree(bp, ignore_errors=True)
        return cls, e.decode("utf-8", "replace"), text
    tool = C.pmap(via_tool, tjobs)
    tool_fail, tool_diff = [], []
    for (k, lv), (cls, e, text) in zip(tjobs, tool):
        hist["build-command"] += 1
        lib = srcs[jobs.index((k, lv))]
        if cls not in ("exit0", "exit1") or "panicked" in e:
            tool_fail.append((k, lv, cls, e))
        elif lib.startswith("src:") and text is not None and text != bytes.fromhex(lib[4:]).decode("utf-8"):
            # not the same text: what counts is the behaviour of what the command wrote (a banner comment, a different layout
            # are not violations) — compile it and run it on the case's input
            exe = os.path.join(d, "tool%d_%d" % (k, lv))
            ok, msg = C.rustc_program(text, exe, rlib)
            got = C.run_exe(exe, cases[k][2].encode("utf-8"), timeout=3) if ok else ("rustc-rejects", msg.encode("utf-8", "replace")[-300:], b"")
            if ok:
                try:
                    os.remove(exe)
                except OSError:
                    pass
            if ok and behaviour_ok(specs[k], got, lv):
                hist["build-command-text-differs-same-behaviour"] += 1
            else:
                tool_diff.append((k, lv, got))
        elif lib.startswith("src:") and text is None and "[error]" in e and "cargo build" not in e:
            hist["build-command-diagnosed"] += 1

    def build_and_run(i):
        k, lv = jobs[i]
        r = srcs[i]
        if not r.startswith("src:"):
            return ("nosrc", r, None)
        exe = os.path.join(d, "c%d_%d" % (k, lv))
        ok, msg = C.rustc_program(bytes.fromhex(r[4:]).decode("utf-8"), exe, rlib)
        if not ok:
            return ("rustc", msg, None)
        res = C.run_exe(exe, cases[k][2].encode("utf-8"), timeout=3)
        try:
            os.remove(exe)
        except OSError:
            pass
        return ("ran", "", res)
    results = C.pmap(build_and_run, range(len(jobs)))
    # structure of the emitted program against the compiler model's IR, and the IR's run against the definition
    mir = C.run_model(["compir 1 %d %s" % (lv, G.cps(cases[k][1])) for k, lv in jobs])
    mrun = C.run_model(["comp 1 %d %d %s %s" % (lv, 4000 if quick else 8000, G.cps(cases[k][1]), G.cps(cases[k][2])) for k, lv in jobs])
    corr = []
    for (k, lv), src, mi, mr in zip(jobs, srcs, mir, mrun):
        if C.timed_out(src, mi, mr):
            hist["evaluator-timeout-skipped"] += 1
            continue
        if not src.startswith("src:"):
            if mi != "none":
                corr.append((k, lv, "model compiles, implementation does not", src, mi))
            continue
        if mi == "none":
            corr.append((k, lv, "implementation compiles, model does not", "", mi))
            continue
        a = ir_of_source(bytes.fromhex(src[4:]).decode("utf-8"))
        b = ir_of_model(mi)
        if a != b and not (a.startswith("blocks=0|") and b.startswith("blocks=0|")):
            corr.append((k, lv, "emitted structure", a, b))
        end = specs[k][0]
        sp = "END:%s|o=%s|e=%s" % (end, ".".join(str(ord(c)) for c in specs[k][1]), ".".join(str(ord(c)) for c in specs[k][2]))
        if end != "fuel" and not mr.startswith("END:fuel") and mr != sp and not end.startswith("err"):
            corr.append((k, lv, "IR run vs language definition", mr[:200], sp[:200]))
    # the emitted structure alone (no rustc needed) on many more programs: block count, start block, translated label
    # table, white-heart target, serialised stacks, dispatch bounds — against the compiler model's IR
    sprogs = [S.scripted(rng, with_read=True) for _ in range(900 if quick else 6000)] + \
             [G.render(G.gen_program(rng)) for _ in range(100 if quick else 2000)]
    for lv in (1, 2):
        ssrc = C.run_impl(["compile %d %s" % (lv, G.cps(p)) for p in sprogs])
        sir = C.run_model(["compir 1 %d %s" % (lv, G.cps(p)) for p in sprogs])
        for p, src, mi in zip(sprogs, ssrc, sir):
            hist["structure-only"] += 1
            if C.timed_out(src, mi):
                hist["evaluator-timeout-skipped"] += 1
                continue
            if not src.startswith("src:") or mi == "none":
                if src.startswith("src:") != (mi != "none"):
                    corr.append((-1, lv, "compiles on one side only: " + p, src[:60], mi[:60]))
                continue
            a = ir_of_source(bytes.fromhex(src[4:]).decode("utf-8"))
            b = ir_of_model(mi)
            if a != b and not (a.startswith("blocks=0|") and b.startswith("blocks=0|")):
                corr.append((-1, lv, "emitted structure of " + p, a, b))
                if "points=" in a and a.split("points=")[1].split("|")[0] != b.split("points=")[1].split("|")[0]:
                    hist["label-table-differs"] += 1
    distinct = set()
    fails = []
    for (k, lv), (st, msg, res) in zip(jobs, results):
        tag, prog, stdin = cases[k]
        hist[tag if tag in ("random", "scripted", "bigarith") else "template"] += 1
        hist["level%d" % lv] += 1
        if len(prog) > 6:
            distinct.add((prog, stdin, lv))
        end = specs[k][0]
        if st == "nosrc":
            # optimize() failed with an encoding error: acceptable only if the program itself stops with that error
            if not end.startswith("err:enc"):
                fails.append((k, lv, "no-source", msg))
            continue
        if st == "rustc":
            fails.append((k, lv, "rustc-rejects", msg[-600:]))
            continue
        if not behaviour_ok(specs[k], res, lv):
            fails.append((k, lv, "behaviour", repr(res)[:400]))
        hist["end:" + end.split(":")[0]] += 1
    seen = set()
    for k, lv, kind, detail in fails[:40]:
        tag, prog, stdin = cases[k]
        ident = "compiled:level%d:%s" % (lv, kind)
        if ident in seen:
            continue
        seen.add(ident)
        V.violation(ident, "program %r with stdin %r compiled at level %d: %s: %s; interpreting it unoptimised gives %r"
                    % (prog, stdin, lv, kind, detail, specs[k]),
                    dict(program=prog, stdin=stdin, level=lv, kind=kind, detail=detail, spec=list(specs[k])))
    # programs whose emitted structure deviates from the model are compiled and executed first: a behavioural
    # difference there is a failing input for the property itself
    if corr and not fails:
        cand = [(lv, why.split(" of ", 1)[1]) for k, lv, why, a, b in corr if k < 0 and " of " in why][:12]
        cspecs = [E.spec_fields(x) for x in C.run_model([E.case_line("spec", "run", 20000, p, "AB\nCD\n") for _, p in cand])]
        csrc = C.run_impl(["compile %d %s" % (lv, G.cps(p)) for lv, p in cand])

        def brun(i):
            if not csrc[i].startswith("src:"):
                return None
            exe = os.path.join(d, "s%d" % i)
            ok, msg = C.rustc_program(bytes.fromhex(csrc[i][4:]).decode("utf-8"), exe, rlib)
            return C.run_exe(exe, b"AB\nCD\n", timeout=3) if ok else ("rustc", msg.encode(), b"")
        for (lv, p), sp, res in zip(cand, cspecs, C.pmap(brun, range(len(cand)))):
            if res is not None and not behaviour_ok(sp, res, lv):
                fails.append((-1, lv, "behaviour", repr(res)[:300]))
                V.violation("compiled:level%d:behaviour" % lv, "program %r with stdin 'AB\\nCD\\n' compiled at level %d: %r; interpreting it unoptimised gives %r"
                            % (p, lv, res, sp), dict(program=p, stdin="AB\nCD\n", level=lv, result=repr(res), spec=list(sp)))
                break
    if corr and not fails:
        k, lv, why, a, b = corr[0]
        V.violation("correspondence:" + prop, "compiler model/implementation correspondence no longer checks (%s, level %d) on %r: %s vs %s"
                    % (why, lv, cases[k][1] if k >= 0 else "", a[:300], b[:300]),
                    dict(correspondence="L0 compile::build_source vs L1 coq/Model/Compile.v", program=cases[k][1] if k >= 0 else why, level=lv, why=why,
                         implementation=a, model=b, disagreements=len(corr)), found_input=False)
    seen_tool = set()
    for k, lv, cls, e in tool_fail:
        if lv in seen_tool:
            continue
        seen_tool.add(lv)
        V.violation("compiled:level%d:build-command-crash" % lv,
                    "`hyeong build -O%d` on %r ends with %s before/without a diagnostic: %s" % (lv, cases[k][1][:200], cls, e[-300:]),
                    dict(program=cases[k][1], level=lv, status=cls, stderr=e[-2000:]))
    if tool_diff and not tool_fail:
        k, lv, got = tool_diff[0]
        V.violation("compiled:level%d:build-command-behaviour" % lv,
                    "the program `hyeong build -O%d` writes for %r (different from what optimize + build_source give when called directly) behaves "
                    "differently from the interpreter on stdin %r: %r, expected %r" % (lv, cases[k][1][:200], cases[k][2], got, specs[k]),
                    dict(program=cases[k][1], stdin=cases[k][2], level=lv, observed=repr(got), expected=repr(specs[k]), disagreements=len(tool_diff)))
    if not pc["ok"]:
        V.violation("proof:" + prop, "proof obligations of %s do not check: %s" % (prop, "; ".join(pc["problems"])),
                    dict(theorem_file="coq/Props/%s.v" % prop, problems=pc["problems"]), found_input=False)
    V.coverage = dict(
        obligations=pc["obligations"], discharged=pc["discharged"], supporting_lemmas=pc["supporting_lemmas"],
        checker_cmd="make -C coq Props/%s.vo && coqc -Q coq HV coq/Props/%s.v (Print Assumptions) ; python3 tools/check.py --property %s --tier %s"
                    % (prop, prop, prop, tier),
        correspondence_disagreements=len(corr),
        trusted_base=C.TRUSTED_BASE + ["rustc and the number-only build of /repo (emitted programs are compiled and executed, not modelled)"],
        axioms=pc["axioms"], proof_files=pc["files"],
        evaluations=len(jobs), distinct_nontrivial=len(distinct),
        rule="templates (pre-executed prefix leaving fractions/negatives/NaN, labels and a pending white-heart target; last pre-executed "
             "command carrying an area; output containing { } \" \; 1-9 area-carrying commands for the dispatch tree; the optimiser templates) "
             "plus random programs x stratified stdin; for each level 0..2 compile::build_source's text is compiled by rustc against the "
             "number-only build of /repo and executed with piped stdin; stdout, stderr and exit class are compared with the L2 language definition",
        samples=[dict(tag=cases[jobs[i][0]][0], level=jobs[i][1], program=cases[jobs[i][0]][1][:80], result=repr(results[i][2])[:100])
                 for i in range(0, len(jobs), max(1, len(jobs) // 6))][:8],
        histogram=dict(hist), property_failures=len(fails))
    V.assumptions = ["that rustc accepts the emitted text and that the executable behaves as the source says is observed, not proved",
                     "oracle: the L2 language definition (whose agreement with the unoptimised interpreter is C01)"]
    return V.finish()


def replay(prop, path):
    import json
    r = json.load(open(path))
    C.build_harness()
    rlib = C.build_numlib()
    d = C.scratch_dir("c03r")
    src = C.run_impl(["compile %d %s" % (r.get("level", 2), G.cps(r.get("program", "")))])[0]
    if not src.startswith("src:"):
        print(src)
        return 0
    ok, msg = C.rustc_program(bytes.fromhex(src[4:]).decode("utf-8"), os.path.join(d, "r"), rlib)
    print("rustc:", ok, msg[-500:])
    if ok:
        print(C.run_exe(os.path.join(d, "r"), r.get("stdin", "").encode("utf-8")))
    return 0
