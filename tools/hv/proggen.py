"""Program and stdin generators for the interpreter-level properties."""
from . import parsegen as P

HEART_SMALL = [0, 1, 2, 11]       # ♥ ❤ 💕 ♡ (index into HEARTS; 11 = white heart, type 13); re-drawn per program, see gen_program


def gen_tree(rng):
    r = rng.random()
    if r < 0.45:
        return [[None]]
    if r < 0.6:
        return [[rng.choice(HEART_SMALL)]]
    nq = rng.choice([1, 1, 2, 2, 3])
    tree = []
    for _ in range(nq):
        nb = rng.choice([1, 1, 2, 3])
        tree.append([rng.choice([None, None] + HEART_SMALL) for _ in range(nb)])
    return tree


def gen_dots(rng, private):
    r = rng.random()
    if r < 0.55:
        return rng.choice([0, 1, 2, 3, 3, 1])
    if r < 0.9:
        return rng.choice(private)
    return rng.choice([0, 7, 12, 33, 100])


def gen_cmd(rng, private, io_weight=1.0):
    kind = rng.choice([0, 0, 0, 1, 2, 3, 4, 5, 5])
    syl = rng.choice([1, 1, 1, 2, 2, 3, 4]) if kind != 0 else rng.choice([1, 2, 3, 5, 8, 13])
    if kind == 0:
        dots = rng.choice([0, 1, 2, 3, 4, 5, 7, 9, 11, 13])
    else:
        dots = gen_dots(rng, private)
        if dots in (0, 1, 2) and rng.random() > io_weight:
            dots = rng.choice(private)
    return (kind, syl, dots, gen_tree(rng))


def render_cmd(cmd, sep=" "):
    kind, syl, dots, tree = cmd
    if syl == 1:
        s = P.SINGLE[kind]
    else:
        cl = P.class_of_kind(kind)
        s = P.START[cl] + P.FILLER[cl] * (syl - 2) + P.ENDS[kind]
    s += "." * dots
    toks = []
    for qi, grp in enumerate(tree):
        if qi:
            toks.append("?")
        for si, sl in enumerate(grp):
            if si:
                toks.append("!")
            if sl is not None:
                toks.append(P.HEARTS[sl])
    return s + "".join(toks)


def render(cmds, sep=" "):
    return sep.join(render_cmd(c) for c in cmds)


def gen_program(rng, n=None):
    n = n or rng.choice([1, 2, 3, 4, 5, 6, 8, 10, 14])
    private = rng.sample([3, 4, 5, 6, 7, 8, 9, 10], 3)
    # a palette of three of the eleven coloured hearts (few, so that labels are met again and jumps happen) plus the white heart
    HEART_SMALL[:] = rng.sample(range(11), 3) + [11]
    r = rng.random()
    cmds = []
    if r < 0.25:
        # arithmetic-heavy: several pushes first so that operators have operands
        for _ in range(rng.randint(2, 5)):
            cmds.append((0, rng.choice([1, 2, 3, 5, 7]), rng.choice([0, 1, 2, 3, 4, 5, 6]), [[None]]))
    for _ in range(n):
        cmds.append(gen_cmd(rng, private, io_weight=0.5 if r > 0.6 else 1.0))
    if rng.random() < 0.3:
        cmds.append((1, 1, 1, [[None]]))   # print the top of the current stack
    return cmds


# ---- templates forcing the mechanisms named in the property anchors ----

def count_loop(k, body="혀어어어엉............. 항."):
    """prints 'A' (or runs `body`) exactly k times (k >= 1) with a backward jump decided by a comparison:
       counter k on stack 3; label (count 1, red heart) on the second command; each round subtracts one,
       runs the body, duplicates the counter and jumps back unless it is below 1."""
    return "형" + "." * k + " 형.♥ 흣.... 하앙... " + body + " 흑... 형.??♥"


def templates(rng):
    H = P.HEARTS
    out = []
    # print a character, then exit through stack 1 / 2
    out.append(("exit-stack1", "형" + "." * 66 + " 항. 흑. 항", ""))
    out.append(("exit-stack2", "혀어엉" + "." * 22 + " 항.. 흑.. 핫", ""))
    out.append(("exit-in-area", "형... 흑. 형.?♥", ""))
    out.append(("exit-multi-operand", "형.. 형... 흑.. 하앙...", ""))
    # fractions, negatives, NaN on stacks and printed
    out.append(("fraction-print", "형.. 형... 흡... 항. 항.", ""))
    out.append(("negative-print", "형..... 흣... 항. 항.", ""))
    out.append(("nan-print", "항. 흡. 형. 흣..", ""))
    out.append(("recip-zero", "형 흡.... 항. 흑.... 항.", ""))
    # ? against a non-zero count, ! equality
    out.append(("question-branch", "형..... 형.......?♥?❤ 형. 항. 형.......?♥ 항.", ""))
    out.append(("bang-branch", "혀엉... 혀엉...!♥!❤ 형.. 혀엉...!♥ 항.", ""))
    out.append(("cmp-fraction", "형. 형.. 흡... 흑... 혀엉.?♥?❤ 형.. 혀엉.?♥", ""))
    # backward jump loop terminated by a comparison: prints 3 2 1 style output
    out.append(("loop-print", "형.... 흑.....♥ 항... 형. 흣...... 항....... 흑... 하앙... 흑... 형.?_?♥".replace("_", ""), ""))
    # white heart: return to last jump source
    out.append(("white-heart", "형.♥ 형..❤ 형.♥ 형...♡ 항.", ""))
    out.append(("white-heart-none", "형.♡ 형.. 항.", ""))
    # reads: whole line, characters, NaN at end of input
    out.append(("read-echo-3", "흑 항. 항. 항.", "AB"))
    out.append(("read-two-lines", "흑 항. 항. 항. 항.", "A\nB\n"))
    out.append(("read-sum", "흑 하앙... 흑... 항.", "12"))
    out.append(("read-astral", "흑 항. 항.", "🙂é"))
    out.append(("read-empty", "흑 항. 항..", ""))
    # output encoding error: 0xD800 = 8 syllables * 6912 dots
    out.append(("enc-error", "형" + "." * 65 + " 항. 혀어어어어어어엉" + "." * 6912 + " 항.", ""))
    out.append(("enc-error-big", "형" + "." * 65 + " 항. 혀" + "어" * 1086 + "엉" + "." * 1024 + " 항.", ""))
    # many copies / duplicate on same stack
    out.append(("dup-same-stack", "형.. 흐으윽... 하아아앙. ", ""))
    # counter loops of various lengths
    for k in (1, 2, 3, 99, 100, 101, 250):
        out.append(("count-loop-%d" % k, count_loop(k), ""))
    out.append(("count-loop-read", count_loop(4, "흑 항. 흑..."), "wxyz"))
    out.append(("count-loop-then-exit", count_loop(3) + " 흑. 항", ""))
    return out


STDIN_STRATA = ["", "A", "AB\n", "\n", "\n\nx\n", "a\r\nb\r\n", "12 30\n", "🙂é한\n", "\u007f\u0080߿ࠀ￿\U00010000\U0010ffff", "퟿\n",
                "\x00\x01\n", "no newline at end", "x" * 300 + "\n", "9\n8\n7\n6\n5\n4\n3\n2\n1\n"]


def gen_stdin(rng):
    r = rng.random()
    if r < 0.5:
        return rng.choice(STDIN_STRATA)
    n = rng.choice([1, 2, 5, 12])
    alphabet = "AZaz09 \n\n\r\t!~\x00éß한🙂\U0010ffffࠀ"
    return "".join(rng.choice(alphabet) for _ in range(n))


def cps(s):
    return ",".join(str(ord(c)) for c in s)


# ---- output-encoding boundaries: programs that print exactly the value v as a character on stdout / stderr ----
FACT = {0x7F: (1, 127), 0x80: (8, 16), 0x7FF: (23, 89), 0x800: (32, 64), 0xD7FF: (5, 11059), 0xD800: (216, 256), 0xDBFF: (3, 18773),
        0xDC00: (220, 256), 0xDFFE: (114, 503), 0xDFFF: (143, 401), 0xE000: (224, 256), 0xFFFF: (255, 257), 0x10000: (256, 256),
        0x110000: (1024, 1088)}


def push_value(v):
    """source of commands leaving exactly v on the selected stack"""
    if v == 0x10FFFF:
        return push_value(0x110000) + " 형. 흣.... 하앙..."          # 1114112 + (-1)
    syl, dots = FACT[v]
    head = "형" if syl == 1 else "혀" + "어" * (syl - 2) + "엉"
    return head + "." * dots


def boundary_programs():
    out = []
    for v in sorted(list(FACT) + [0x10FFFF]):
        for stream in (1, 2):
            out.append(("print-%x-to-%d" % (v, stream), push_value(v) + " 항" + "." * stream, ""))
    return out


def layout_program(rng):
    """a few commands, the last one placed at a line and a column where the decimal width of `line:col` changes
    (9/10, 99/100, 999/1000, counted from 0 or from 1)"""
    private = [3, 4, 5]
    if rng.random() < 0.3:
        # ... or a file whose number of commands sits where the width of the index column changes (10, 100, 1000 commands ± 1)
        n = rng.choice([9, 10, 11, 12, 99, 100, 101, 102, 999, 1000, 1001, 1002])
        return rng.choice([" ", "\n"]).join(rng.choice(["형", "형.", "항...", "핫.... "]).strip() for _ in range(n))
    n = rng.choice([1, 2, 3, 4])
    cmds = [render_cmd(gen_cmd(rng, private, io_weight=0.2)) for _ in range(n)]
    edge = [0, 1, 8, 9, 10, 11, 98, 99, 100, 101, 998, 999, 1000, 1001]
    nl = rng.choice([0, 0, 0] + edge[:10] + [rng.choice(edge)])
    col = rng.choice(edge[:10] * 2 + edge)
    head = " ".join(cmds[:-1])
    if nl == 0:
        pad = max(0, col - len(head)) if head else col
        return head + " " * max(pad, 1 if head else 0) + cmds[-1] if head else " " * col + cmds[-1]
    return head + "\n" * nl + " " * col + cmds[-1]


# ---- programs that print a given text, and programs that print a lot ----
def push_cp(v):
    """one 형-kind command leaving the code point v on the selected stack (syllables x dots = v), or two and a sum"""
    if v == 0:
        return "형"
    best = None
    for h in range(1, 2001):
        if v % h == 0 and v // h <= 2000:
            if best is None or h + v // h < best[0] + best[1]:
                best = (h, v // h)
    if best is None:
        return push_cp(v - 1) + " 형. 하앙..."            # (v-1) + 1
    syl, dots = best
    return ("형" if syl == 1 else "혀" + "어" * (syl - 2) + "엉") + "." * dots


def print_text_program(text, stream=1):
    """pushes every character of the text and prints it on stdout (1) or stderr (2), in order"""
    return " ".join(push_cp(ord(c)) + " 항" + "." * stream for c in text)


# texts whose bytes a display layer, a format string or a "text mode" would change
OUTPUT_TEXTS = ["A\r\nB", "\r\n", "\n\r", "\r", "a \t \n", " ", "\t", "\n", "\u0085", " x", "{}", "{0}{{", "%s%%", "\\n\\", "\"'", "\x00",
                "﻿x", "x﻿", "\x1b[31mred\x1b[0m", "\x08\x7f", "é", "형", "​", "a b", "ß→SS", "İi"]


def output_text_cases(rng):
    out = []
    for t in OUTPUT_TEXTS:
        stream = rng.choice([1, 1, 2])
        # everything before the first read is folded at level 2; the same text again after a read
        out.append(("output-text", print_text_program(t, stream) + " 흑 항. 흑... " + print_text_program(t, 3 - stream), "q\n"))
    return out


def bulk_output_program(n, cp, read_after=True):
    """n copies of one character written by n separate commands (one 흐…윽 puts the copies on stack 3), then a read: crosses
    the 4 KiB / 8 KiB / 64 KiB marks of buffers between the program and the terminal"""
    prog = [push_cp(cp), "흐" + "으" * (n - 2) + "윽..."] + ["항."] * n
    if read_after:
        prog += ["흑", "항.", "흑...", push_cp(66), "항."]
    return " ".join(prog)


def bulk_output_cases(thorough=False):
    sizes = [(4200, 65), (2200, 0xE9), (1500, 0xD55C), (1100, 0x1F642)] + ([(17000, 0x1F642), (70000, 65)] if thorough else [])
    return [("bulk-output", bulk_output_program(n, cp), "z\n") for n, cp in sizes]
