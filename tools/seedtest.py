#!/usr/bin/env python3
"""Confirm a seeded change and run the checks against it.

  python3 tools/seedtest.py <outdir/mutN> <worktree> <seed-id> [--props C05,C09]

1. in the scratch worktree: the change applies and compiles, the existing tests still pass (the 4 network tests of
   build_test aside), the demonstration fails with the change and passes without it;
2. the patch is applied to /repo, the quick checks of the listed properties run, the patch is undone;
3. everything is recorded under /verif/seeded/<seed-id>/.
"""
import json
import os
import re
import shutil
import subprocess
import sys

VERIF = os.path.dirname(os.path.dirname(os.path.abspath(__file__)))


def sh(cmd, cwd=None, timeout=3000):
    p = subprocess.run(cmd, shell=True, cwd=cwd, stdout=subprocess.PIPE, stderr=subprocess.STDOUT, timeout=timeout,
                       env=dict(os.environ, CARGO_NET_OFFLINE="true"))
    return p.returncode, p.stdout.decode("utf-8", "replace")


def test_summary(out):
    passed = sum(int(m) for m in re.findall(r"^test result: \w+\. (\d+) passed", out, re.M))
    failed = re.findall(r"^test (\S+) \.\.\. FAILED", out, re.M)
    return passed, failed


def main():
    mdir, wt, sid = sys.argv[1], sys.argv[2], sys.argv[3]
    props = None
    if "--props" in sys.argv:
        props = sys.argv[sys.argv.index("--props") + 1].split(",")
    meta = json.load(open(os.path.join(mdir, "meta.json")))
    prop = meta.get("property", sid.split("-")[0])
    props = props or [prop]
    patch = os.path.join(mdir, "patch.diff")
    demo_rs = os.path.join(mdir, "demo_test.rs")
    demo_sh = os.path.join(mdir, "demo.sh")
    rec = dict(meta)
    rec["seed_id"] = sid
    tgt = "CARGO_TARGET_DIR=%s/target" % wt
    # ---- 1. confirm in the scratch worktree
    sh("git checkout -- . && git clean -fdq tests", cwd=wt)
    rc, out = sh("git apply %s" % patch, cwd=wt)
    if rc != 0:
        print("patch does not apply:", out)
        return 2
    if os.path.exists(demo_rs):
        shutil.copy(demo_rs, os.path.join(wt, "tests", "demo_test.rs"))
    rc, out = sh("%s cargo test --offline --no-fail-fast 2>&1" % tgt, cwd=wt)
    passed, failed = test_summary(out)
    nonbuild_failed = [f for f in failed if not f.startswith("build_test") and "demo" not in f]
    compiled = "error: could not compile" not in out and "error[E" not in out
    if os.path.exists(demo_rs):
        demo_fail_with = any("demo" in f for f in failed) or bool(re.search(r"Running tests/demo_test.rs.*?test result: FAILED", out, re.S))
        demo_names = [f for f in failed if not f.startswith("build_test")]
    else:
        sh("%s cargo build --offline 2>&1" % tgt, cwd=wt)
        rcd, outd = sh("bash %s" % demo_sh, cwd=wt)
        demo_fail_with = rcd != 0
        demo_names = []
    # which failing tests belong to the demo (the demo file's tests fail, nothing else)
    suite_failed = []
    if os.path.exists(demo_rs):
        demo_test_names = re.findall(r"fn (\w+)\s*\(", open(demo_rs).read())
        suite_failed = [f for f in failed if not f.startswith("build_test") and f.split("::")[-1] not in demo_test_names]
    else:
        suite_failed = nonbuild_failed
    rec["confirm_with_patch"] = dict(compiles=compiled, tests_passed=passed, unexpected_failures=suite_failed, demo_fails=demo_fail_with)
    # without the change
    sh("git checkout -- .", cwd=wt)
    if os.path.exists(demo_rs):
        rc, out2 = sh("%s cargo test --offline --test demo_test 2>&1" % tgt, cwd=wt)
        _, failed2 = test_summary(out2)
        demo_pass_without = rc == 0 and not failed2
        os.remove(os.path.join(wt, "tests", "demo_test.rs"))
    else:
        sh("%s cargo build --offline 2>&1" % tgt, cwd=wt)
        rcd, outd = sh("bash %s" % demo_sh, cwd=wt)
        demo_pass_without = rcd == 0
    rec["confirm_without_patch"] = dict(demo_passes=demo_pass_without)
    ok = compiled and not suite_failed and demo_fail_with and demo_pass_without
    rec["confirmed"] = ok
    print("confirmed" if ok else "NOT CONFIRMED", json.dumps(rec["confirm_with_patch"]), json.dumps(rec["confirm_without_patch"]))
    # ---- 2. run the checks against it
    results = {}
    sandbox = "--sandbox" in sys.argv
    if ok and sandbox:
        # the same checks against the scratch worktree (HV_REPO) with their own build/evidence directories (HV_SANDBOX):
        # lets several changes be tried at once and leaves /repo alone
        sb = "/tmp/hvs-" + sid
        sh("rm -rf %s; mkdir -p %s/build" % (sb, sb))
        for t in ("target", "target-num"):
            if os.path.exists(os.path.join(VERIF, "build", t)):
                sh("cp -r %s %s/build/%s" % (os.path.join(VERIF, "build", t), sb, t))
        sh("git checkout -- . && git clean -fdq tests && git apply %s" % patch, cwd=wt)
        try:
            for p in props:
                rc, out = sh("HV_REPO=%s HV_SANDBOX=%s python3 tools/check.py --property %s --tier quick" % (wt, sb, p), cwd=VERIF)
                vio = [l for l in out.split("\n") if l.startswith("VIOLATION") or l.startswith("KNOWN-FINDING")]
                what = []
                for l in vio:
                    m = re.search(r"replay=(\S+)", l)
                    if m and os.path.exists(m.group(1)):
                        try:
                            r = json.load(open(m.group(1)))
                            what.append(dict(identity=r.get("identity"), what=r.get("what", "")[:400], found_failing_input=r.get("found_failing_input")))
                        except Exception:
                            pass
                results[p] = dict(exit=rc, lines=[re.sub(r"/tmp/hvs-[^/]+", "/verif", l) for l in vio], reports=what)
                print(sid, p, "exit", rc, "; ".join(w["identity"] for w in what))
        finally:
            sh("git checkout -- .", cwd=wt)
            sh("rm -rf %s" % sb)
    elif ok:
        rc, out = sh("git -C /repo status --porcelain")
        if out.strip():
            print("/repo is not clean; refusing")
            return 2
        rc, out = sh("git -C /repo apply %s" % patch)
        try:
            for p in props:
                rc, out = sh("python3 tools/check.py --property %s --tier quick" % p, cwd=VERIF)
                vio = [l for l in out.split("\n") if l.startswith("VIOLATION") or l.startswith("KNOWN-FINDING")]
                what = []
                for l in vio:
                    m = re.search(r"replay=(\S+)", l)
                    if m and os.path.exists(m.group(1)):
                        try:
                            r = json.load(open(m.group(1)))
                            what.append(dict(identity=r.get("identity"), what=r.get("what", "")[:400], found_failing_input=r.get("found_failing_input")))
                        except Exception:
                            pass
                results[p] = dict(exit=rc, lines=vio, reports=what)
                print(p, "exit", rc, "; ".join(w["identity"] for w in what))
        finally:
            sh("git -C /repo checkout -- .")
            sh("rm -f %s/replays/*.json" % VERIF)
    rec["checks"] = results
    rec["detected_by"] = [p for p, r in results.items() if r["exit"] == 1]
    # ---- 3. record
    dst = os.path.join(VERIF, "seeded", sid)
    os.makedirs(dst, exist_ok=True)
    shutil.copy(patch, os.path.join(dst, "patch.diff"))
    for f in (demo_rs, demo_sh):
        if os.path.exists(f):
            shutil.copy(f, dst)
    for f in os.listdir(mdir):
        if f.endswith(".hyeong") or f.endswith(".txt"):
            shutil.copy(os.path.join(mdir, f), dst)
    rec["what_it_needs"] = meta.get("needs", "")
    rec["checks_ran_against"] = "scratch worktree with the change (HV_REPO/HV_SANDBOX)" if sandbox else "/repo with the change applied"
    rec["ran"] = ("scratch worktree: git apply; cargo test --offline --no-fail-fast (existing suite + demonstration); git checkout; demonstration again. "
                  "/repo: git apply; python3 tools/check.py --property <P> --tier quick for P in %s; git checkout -- ." % ",".join(props))
    json.dump(rec, open(os.path.join(dst, "meta.json"), "w"), indent=1, ensure_ascii=False)
    return 0


if __name__ == "__main__":
    sys.exit(main())
