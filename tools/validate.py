#!/usr/bin/env python3
"""Validate MANIFEST.json and the evidence files against the schemas (run with python3-vt)."""
import json, sys, glob, jsonschema
m = json.load(open('/verif/MANIFEST.json'))
jsonschema.validate(m, json.load(open('/root/.vp/MANIFEST.schema.json')))
es = json.load(open('/root/.vp/EVIDENCE.schema.json'))
for c in m['checks']:
    try:
        jsonschema.validate(json.load(open(c['evidence_file'])), es)
    except Exception as e:
        print("evidence problem", c['property_id'], str(e)[:300])
print("validated", len(m['checks']), "checks")
