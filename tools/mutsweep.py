#!/usr/bin/env python3
"""Mechanical mutation sweep: small syntactic changes of /repo's source that still compile and pass the existing test suite,
tried against the quick checks of the properties the file carries.

  python3 tools/mutsweep.py [-j 4] [--per-file 12] [--seed 1] [--files a.rs,b.rs] --out mutsweep/

For every surviving mutant (compiles, existing tests pass) the outcome is `caught` (some check reports a violation) or
`not-caught`.  A not-caught mutant is either equivalent with respect to the properties or a hole in the checks: those are
triaged by hand (see DESIGN.md 8.6).  Uses scratch worktrees and sandboxes under /tmp; /repo is never touched."""
import json
import os
import random
import re
import subprocess
import sys
from concurrent.futures import ThreadPoolExecutor

VERIF = os.path.dirname(os.path.dirname(os.path.abspath(__file__)))
PROPS = {
    "src/number/big_number.rs": ["C05", "C06", "C07", "C09"],
    "src/number/num.rs": ["C06", "C07", "C09", "C01", "C14"],
    "src/core/parse.rs": ["C04", "C08"],
    "src/core/area.rs": ["C01", "C07", "C08"],
    "src/core/code.rs": ["C08", "C04", "C01"],
    "src/core/execute.rs": ["C01", "C02", "C11", "C12", "C14"],
    "src/core/state.rs": ["C01", "C02", "C11", "C12"],
    "src/core/optimize.rs": ["C02", "C10", "C03"],
    "src/core/compile.rs": ["C03", "C14"],
    "src/app/debug.rs": ["C11"],
    "src/app/interpreter.rs": ["C12"],
    "src/app/check.rs": ["C08", "C13", "C11"],
    "src/app/run.rs": ["C02", "C13", "C01"],
    "src/util/io.rs": ["C13", "C14", "C01", "C12", "C11", "C02"],
    "src/util/ext.rs": ["C13", "C14", "C01"],
    "src/util/error.rs": ["C13"],
}
OPS = [
    (r" < ", " <= "), (r" <= ", " < "), (r" > ", " >= "), (r" >= ", " > "), (r" == ", " != "), (r" != ", " == "),
    (r" \+ 1\b", " + 0"), (r" - 1\b", " - 0"), (r" \+ 1\b", " + 2"), (r" \+ ", " - "), (r" - ", " + "),
    (r" && ", " || "), (r" \|\| ", " && "), (r"\btrue\b", "false"), (r"\bfalse\b", "true"),
    (r"\b0\b", "1"), (r"\b1\b", "0"), (r"\b1\b", "2"), (r"\b2\b", "3"), (r"\b3\b", "2"), (r"\b100\b", "99"), (r"\b32\b", "31"),
    (r"if !", "if "), (r"\.is_empty\(\)", ".len() == 1"), (r"\.min\(", ".max("), (r"\.max\(", ".min("),
    (r"0x[0-9A-Fa-f]+", None),          # hex constant + 1
]


def sh(cmd, cwd=None, timeout=3600, env=None):
    p = subprocess.run(cmd, shell=True, cwd=cwd, stdout=subprocess.PIPE, stderr=subprocess.STDOUT, timeout=timeout, env=env)
    return p.returncode, p.stdout.decode("utf-8", "replace")


def code_lines(text):
    """indices of lines that are code (no comment/doc/attribute/use lines, not inside #[cfg(test)] modules)"""
    out = []
    in_test = False
    for i, l in enumerate(text.split("\n")):
        s = l.strip()
        if s.startswith("#[cfg(test)]"):
            in_test = True
        if in_test:
            continue
        if not s or s.startswith("//") or s.startswith("#[") or s.startswith("use ") or s.startswith("pub use") or s.startswith("*"):
            continue
        out.append(i)
    return out


def mutants_of(path, text, rng, want):
    lines = text.split("\n")
    cand = []
    for i in code_lines(text):
        l = lines[i]
        code = l.split("//")[0]
        for pat, rep in OPS:
            for m in re.finditer(pat, code):
                if '"' in code[:m.start()] and code[:m.start()].count('"') % 2 == 1:
                    continue            # inside a string literal
                if rep is None:
                    v = int(m.group(0), 16)
                    new = code[:m.start()] + "0x%X" % (v + 1) + code[m.end():]
                else:
                    new = code[:m.start()] + rep + code[m.end():]
                cand.append((i, l, new + l[len(code):], "%s -> %s" % (m.group(0).strip(), (rep or "+1").strip())))
        s = code.strip()
        if re.fullmatch(r"[A-Za-z_][\w\.\[\]]*\.\w+\([^;{}]*\)\??;", s) and not s.startswith("return"):
            cand.append((i, l, l.replace(s, "// " + s), "delete statement"))
    rng.shuffle(cand)
    seen, out = set(), []
    for i, old, new, what in cand:
        if (i, new) in seen or old == new:
            continue
        seen.add((i, new))
        out.append((i, old, new, what))
        if len(out) >= want:
            break
    return out


def try_mutant(job):
    path, idx, (lineno, old, new, what), outdir, slot = job
    mid = "%s-%d" % (os.path.basename(path).replace(".rs", ""), idx)
    wt = "/tmp/msw-%d" % slot
    rec = dict(id=mid, file=path, line=lineno + 1, old=old.strip(), new=new.strip(), what=what)
    src = os.path.join(wt, path)
    sh("git checkout -- .", cwd=wt)
    text = open(src, encoding="utf-8").read().split("\n")
    text[lineno] = new
    open(src, "w", encoding="utf-8").write("\n".join(text))
    env = dict(os.environ, CARGO_TARGET_DIR=wt + "/target", CARGO_NET_OFFLINE="true")
    # unit and integration tests first (build_test needs the network and is skipped: it fails on the unchanged tree too),
    # each under a time limit — a mutant that makes a test loop forever is killed by that test; then the doc tests
    tests = [os.path.basename(f)[:-3] for f in sorted(os.listdir(os.path.join(wt, "tests"))) if f.endswith(".rs") and f != "build_test.rs"]
    rc, out = sh("timeout -k 5 420 cargo test --offline --no-fail-fast --lib --bins %s 2>&1" % " ".join("--test " + t for t in tests),
                 cwd=wt, env=env, timeout=900)
    if "error: could not compile" in out or "error[E" in out:
        rec["status"] = "does-not-compile"
        return rec
    failed = re.findall(r"^test (\S+) \.\.\. FAILED", out, re.M)
    if failed or rc != 0:
        rec["status"] = "killed-by-tests"
        rec["tests"] = failed[:4] or ["timeout or abort (rc %d)" % rc]
        return rec
    rc, out = sh("timeout -k 5 600 cargo test --offline --no-fail-fast --doc 2>&1", cwd=wt, env=env, timeout=900)
    if rc != 0:
        rec["status"] = "killed-by-tests"
        rec["tests"] = ["doctest"] + re.findall(r"^test (src/\S+ - \S+) ", out, re.M)[:0]
        return rec
    rc, diff = sh("git diff", cwd=wt)
    os.makedirs(os.path.join(outdir, mid), exist_ok=True)
    open(os.path.join(outdir, mid, "patch.diff"), "w").write(diff)
    sb = "/tmp/mss-%d" % slot
    sh("rm -rf %s; mkdir -p %s/build" % (sb, sb))
    for t in ("target", "target-num"):
        if os.path.exists(os.path.join(VERIF, "build", t)):
            sh("cp -r %s %s/build/%s" % (os.path.join(VERIF, "build", t), sb, t))
    cenv = dict(os.environ, HV_REPO=wt, HV_SANDBOX=sb, CARGO_NET_OFFLINE="true")
    caught = {}
    for p in PROPS[path]:
        rc, o = sh("python3 tools/check.py --property %s --tier quick" % p, cwd=VERIF, env=cenv, timeout=3000)
        ids = []
        for l in o.split("\n"):
            m = re.search(r"replay=(\S+)", l)
            if l.startswith("VIOLATION") and m and os.path.exists(m.group(1)):
                try:
                    ids.append(json.load(open(m.group(1))).get("identity"))
                except Exception:
                    pass
        caught[p] = dict(exit=rc, identities=ids[:4])
        if rc == 1:
            break                        # one report is enough
    sh("rm -rf %s" % sb)
    rec["checks"] = caught
    rec["status"] = "caught" if any(v["exit"] == 1 for v in caught.values()) else "not-caught"
    json.dump(rec, open(os.path.join(outdir, mid, "meta.json"), "w"), indent=1, ensure_ascii=False)
    return rec


def main():
    a = sys.argv[1:]
    j, per, seed, files, outdir = 4, 12, 1, None, os.path.join(VERIF, "mutsweep")
    i = 0
    while i < len(a):
        if a[i] == "-j": j = int(a[i + 1])
        elif a[i] == "--per-file": per = int(a[i + 1])
        elif a[i] == "--seed": seed = int(a[i + 1])
        elif a[i] == "--files": files = a[i + 1].split(",")
        elif a[i] == "--out": outdir = a[i + 1]
        i += 2
    rng = random.Random(seed)
    os.makedirs(outdir, exist_ok=True)
    jobs = []
    for path in (files or sorted(PROPS)):
        text = open(os.path.join("/repo", path), encoding="utf-8").read()
        for k, m in enumerate(mutants_of(path, text, rng, per)):
            jobs.append((path, seed * 1000 + k, m))
    rng.shuffle(jobs)
    for s in range(j):
        sh("git -C /repo worktree remove --force /tmp/msw-%d; rm -rf /tmp/msw-%d; git -C /repo worktree add --detach /tmp/msw-%d HEAD" % (s, s, s))
        # warm the scratch target directory once
        sh("cargo build --offline --tests", cwd="/tmp/msw-%d" % s, env=dict(os.environ, CARGO_TARGET_DIR="/tmp/msw-%d/target" % s, CARGO_NET_OFFLINE="true"), timeout=2400)
    import queue
    slots = queue.Queue()
    for s in range(j):
        slots.put(s)
    results = []

    def run(job):
        s = slots.get()
        try:
            r = try_mutant(job + (outdir, s))
        except Exception as e:
            r = dict(id="%s-%d" % (job[0], job[1]), status="error", error=str(e)[:300])
        finally:
            slots.put(s)
        print("%-22s %-18s %s | %s | %s" % (r.get("id"), r.get("status"), r.get("what", ""), r.get("new", "")[:70],
                                         ";".join("%s:%s" % (p, ",".join(v["identities"][:1])) for p, v in r.get("checks", {}).items() if v["exit"] == 1)))
        sys.stdout.flush()
        return r
    with ThreadPoolExecutor(max_workers=j) as ex:
        results = list(ex.map(run, jobs))
    for s in range(j):
        sh("git -C /repo worktree remove --force /tmp/msw-%d; rm -rf /tmp/msw-%d /tmp/mss-%d" % (s, s, s))
    summ = {}
    for r in results:
        summ[r["status"]] = summ.get(r["status"], 0) + 1
    json.dump(dict(seed=seed, per_file=per, summary=summ, results=results), open(os.path.join(outdir, "SWEEP-%d.json" % seed), "w"), indent=1, ensure_ascii=False)
    print(summ)
    return 0


if __name__ == "__main__":
    sys.exit(main())
