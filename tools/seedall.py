#!/usr/bin/env python3
"""Regression of the seeded changes: apply each seeded/<id>/patch.diff to /repo, run the quick check of its property
(and of the neighbouring properties listed in its meta.json), undo it, and print one line per change.

  python3 tools/seedall.py [id-prefix ...]        e.g.  python3 tools/seedall.py C03 C11-r2

Writes seeded/REGRESSION.json.  /repo must be clean; it is restored after every change."""
import glob
import json
import os
import re
import subprocess
import sys

VERIF = os.path.dirname(os.path.dirname(os.path.abspath(__file__)))


def sh(cmd, cwd=None, timeout=3000):
    p = subprocess.run(cmd, shell=True, cwd=cwd, stdout=subprocess.PIPE, stderr=subprocess.STDOUT, timeout=timeout)
    return p.returncode, p.stdout.decode("utf-8", "replace")


def main():
    want = sys.argv[1:]
    rc, out = sh("git -C /repo status --porcelain")
    if out.strip():
        print("/repo is not clean")
        return 2
    results = {}
    for d in sorted(glob.glob(os.path.join(VERIF, "seeded", "*", "patch.diff"))):
        sid = os.path.basename(os.path.dirname(d))
        if want and not any(sid.startswith(w) for w in want):
            continue
        meta = json.load(open(os.path.join(os.path.dirname(d), "meta.json")))
        prop = meta.get("property", sid.split("-")[0])
        rc, out = sh("git -C /repo apply %s" % d)
        if rc != 0:
            print(sid, "patch does not apply")
            continue
        try:
            rc, out = sh("python3 tools/check.py --property %s --tier quick" % prop, cwd=VERIF)
            vio = [l for l in out.split("\n") if l.startswith("VIOLATION")]
            ids = []
            for l in vio:
                m = re.search(r"replay=(\S+)", l)
                if m and os.path.exists(m.group(1)):
                    try:
                        ids.append(json.load(open(m.group(1))).get("identity"))
                    except Exception:
                        pass
            results[sid] = dict(property=prop, exit=rc, identities=ids,
                                no_failing_input=all("no-failing-input-found" in l for l in vio) if vio else None)
            print("%-10s %s exit=%d %s" % (sid, prop, rc, ", ".join(ids[:3])))
            sys.stdout.flush()
        finally:
            sh("git -C /repo checkout -- .")
            sh("rm -f %s/replays/*.json" % VERIF)
    json.dump(results, open(os.path.join(VERIF, "seeded", "REGRESSION.json"), "w"), indent=1, ensure_ascii=False)
    missed = [k for k, v in results.items() if v["exit"] != 1]
    print("detected %d of %d; missed: %s" % (len(results) - len(missed), len(results), ", ".join(missed) or "none"))
    return 0


if __name__ == "__main__":
    sys.exit(main())
