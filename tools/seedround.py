#!/usr/bin/env python3
"""Confirm and try several seeded changes at once:  python3 tools/seedround.py [-j N] <mutdir>=<seed-id> ...
Each gets its own scratch worktree (/tmp/swr-<seed-id>) and sandbox; see tools/seedtest.py --sandbox."""
import os
import subprocess
import sys
from concurrent.futures import ThreadPoolExecutor

VERIF = os.path.dirname(os.path.dirname(os.path.abspath(__file__)))
EXTRA = ""


def one(arg):
    mdir, sid = arg.split("=")
    wt = "/tmp/swr-" + sid
    subprocess.run("git -C /repo worktree remove --force %s; rm -rf %s; git -C /repo worktree add --detach %s HEAD" % (wt, wt, wt),
                   shell=True, stdout=subprocess.DEVNULL, stderr=subprocess.DEVNULL)
    p = subprocess.run("python3 tools/seedtest.py %s %s %s --sandbox%s" % (mdir, wt, sid, EXTRA), shell=True, cwd=VERIF,
                       stdout=subprocess.PIPE, stderr=subprocess.STDOUT)
    subprocess.run("git -C /repo worktree remove --force %s; rm -rf %s" % (wt, wt), shell=True, stdout=subprocess.DEVNULL, stderr=subprocess.DEVNULL)
    out = p.stdout.decode("utf-8", "replace")
    print("==== %s\n%s" % (sid, out[-1500:]))
    sys.stdout.flush()
    return sid


def main():
    args = sys.argv[1:]
    j = 4
    if args and args[0] == "-j":
        j = int(args[1]); args = args[2:]
    if args and args[0] == "--all":          # every property's check, not only the one named in meta.json
        global EXTRA
        EXTRA = " --props " + ",".join("C%02d" % i for i in range(1, 15))
        args = args[1:]
    with ThreadPoolExecutor(max_workers=j) as ex:
        list(ex.map(one, args))


if __name__ == "__main__":
    main()
