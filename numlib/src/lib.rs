pub use hyeong::number::num::Num;
