// Implementation evaluator, number layer: the prefix expression language of ocaml/driver.ml run
// against the public API of hyeong::number.
use hyeong::number::big_number::BigNum;
use hyeong::number::num::Num;
use std::cmp::Ordering;

pub enum V {
    Big(BigNum),
    Num(Num),
    Bool(bool),
    Cmp(Option<Ordering>),
    Str(String),
    Err(&'static str),
    Int(i128),
    U(u64),
}

fn cps(s: &str) -> Vec<u32> {
    if s.is_empty() {
        vec![]
    } else {
        s.split(',').map(|x| x.parse::<u32>().unwrap()).collect()
    }
}

fn big_lit(s: &str) -> BigNum {
    let neg = s.starts_with('-');
    let mut b = BigNum::from_vec(cps(&s[1..]));
    if neg {
        b.minus();
    }
    b
}

pub fn eval<'a>(toks: &'a [&'a str]) -> (V, &'a [&'a str]) {
    let t = toks[0];
    let rest = &toks[1..];
    let c0 = t.chars().next().unwrap();
    match c0 {
        'L' => return (V::Big(big_lit(&t[1..])), rest),
        'I' => return (V::Int(t[1..].parse::<i128>().unwrap()), rest),
        'U' => return (V::U(t[1..].parse::<u64>().unwrap()), rest),
        'T' => {
            return (
                V::Str(cps(&t[1..]).iter().map(|&c| std::char::from_u32(c).unwrap()).collect()),
                rest,
            )
        }
        _ => {}
    }
    macro_rules! big1 {
        ($f:expr) => {{
            match eval(rest) {
                (V::Big(a), r) => ($f(a), r),
                (V::Err(e), r) => (V::Err(e), r),
                _ => panic!("type"),
            }
        }};
    }
    macro_rules! big2 {
        ($f:expr) => {{
            match eval(rest) {
                (V::Big(a), r) => match eval(r) {
                    (V::Big(b), r2) => ($f(a, b), r2),
                    (V::Err(e), r2) => (V::Err(e), r2),
                    _ => panic!("type"),
                },
                (V::Err(e), r) => {
                    let (_, r2) = eval(r);
                    (V::Err(e), r2)
                }
                _ => panic!("type"),
            }
        }};
    }
    macro_rules! num1 {
        ($f:expr) => {{
            match eval(rest) {
                (V::Num(a), r) => ($f(a), r),
                (V::Err(e), r) => (V::Err(e), r),
                _ => panic!("type"),
            }
        }};
    }
    macro_rules! num2 {
        ($f:expr) => {{
            match eval(rest) {
                (V::Num(a), r) => match eval(r) {
                    (V::Num(b), r2) => ($f(a, b), r2),
                    (V::Err(e), r2) => (V::Err(e), r2),
                    _ => panic!("type"),
                },
                (V::Err(e), r) => {
                    let (_, r2) = eval(r);
                    (V::Err(e), r2)
                }
                _ => panic!("type"),
            }
        }};
    }
    match t {
        "add" => big2!(|a: BigNum, b: BigNum| V::Big(&a + &b)),
        "sub" => big2!(|a: BigNum, b: BigNum| V::Big(&a - &b)),
        "mul" => big2!(|a: BigNum, b: BigNum| V::Big(&a * &b)),
        "div" => big2!(|a: BigNum, b: BigNum| V::Big(&a / &b)),
        "rem" => big2!(|a: BigNum, b: BigNum| V::Big(&a % &b)),
        "addas" => big2!(|mut a: BigNum, b: BigNum| {
            a += &b;
            V::Big(a)
        }),
        "subas" => big2!(|mut a: BigNum, b: BigNum| {
            a -= &b;
            V::Big(a)
        }),
        "mulas" => big2!(|mut a: BigNum, b: BigNum| {
            a *= &b;
            V::Big(a)
        }),
        "divas" => big2!(|mut a: BigNum, b: BigNum| {
            a /= &b;
            V::Big(a)
        }),
        "remas" => big2!(|mut a: BigNum, b: BigNum| {
            a %= &b;
            V::Big(a)
        }),
        "gcd" => big2!(|a: BigNum, b: BigNum| V::Big(BigNum::gcd(&a, &b))),
        "cmp" => big2!(|a: BigNum, b: BigNum| V::Cmp(a.partial_cmp(&b))),
        "eq" => big2!(|a: BigNum, b: BigNum| V::Bool(a == b)),
        "neg" => big1!(|a: BigNum| V::Big(-&a)),
        "minus" => big1!(|mut a: BigNum| {
            a.minus();
            V::Big(a)
        }),
        "is_zero" => big1!(|a: BigNum| V::Bool(a.is_zero())),
        "is_pos" => big1!(|a: BigNum| V::Bool(a.is_pos())),
        "to_int" => big1!(|a: BigNum| V::U(a.to_int() as u64)),
        "disp" => big1!(|a: BigNum| V::Str(format!("{}", a))),
        "new" => match eval(rest) {
            (V::Int(i), r) => (V::Big(BigNum::new(i as isize)), r),
            _ => panic!("type"),
        },
        "tsb" => match eval(rest) {
            (V::Big(a), r) => match eval(r) {
                (V::U(b), r2) => (
                    match a.to_string_base(b as usize) {
                        Ok(s) => V::Str(s),
                        Err(_) => V::Err("base"),
                    },
                    r2,
                ),
                _ => panic!("type"),
            },
            _ => panic!("type"),
        },
        "fsb" => match eval(rest) {
            (V::Str(s), r) => match eval(r) {
                (V::U(b), r2) => (
                    match BigNum::from_string_base(s, b as usize) {
                        Ok(a) => V::Big(a),
                        Err(hyeong::number::big_number::Error::BaseSizeError(_)) => V::Err("base"),
                        Err(hyeong::number::big_number::Error::ParseError) => V::Err("parse"),
                    },
                    r2,
                ),
                _ => panic!("type"),
            },
            _ => panic!("type"),
        },
        "N" => big2!(|a: BigNum, b: BigNum| V::Num(Num::from_big_num(a, b))),
        "nan" => (V::Num(Num::nan()), rest),
        "nnew" => match eval(rest) {
            (V::Int(i), r) => match eval(r) {
                (V::Int(j), r2) => (V::Num(Num::new(i as isize, j as usize)), r2),
                _ => panic!("type"),
            },
            _ => panic!("type"),
        },
        "fromnum" => match eval(rest) {
            (V::Int(i), r) => (V::Num(Num::from_num(i as isize)), r),
            _ => panic!("type"),
        },
        "nadd" => num2!(|a: Num, b: Num| V::Num(&a + &b)),
        "nmul" => num2!(|a: Num, b: Num| V::Num(&a * &b)),
        "naddas" => num2!(|mut a: Num, b: Num| {
            a += &b;
            V::Num(a)
        }),
        "nmulas" => num2!(|mut a: Num, b: Num| {
            a *= &b;
            V::Num(a)
        }),
        "nneg" => num1!(|a: Num| V::Num(-&a)),
        "nminus" => num1!(|mut a: Num| {
            a.minus();
            V::Num(a)
        }),
        "nflip" => num1!(|mut a: Num| {
            a.flip();
            V::Num(a)
        }),
        "floor" => num1!(|a: Num| V::Big(a.floor())),
        "nispos" => num1!(|a: Num| V::Bool(a.is_pos())),
        "nisnan" => num1!(|a: Num| V::Bool(a.is_nan())),
        "ncmp" => num2!(|a: Num, b: Num| V::Cmp(a.partial_cmp(&b))),
        "neq" => num2!(|a: Num, b: Num| V::Bool(a == b)),
        "ndisp" => num1!(|a: Num| V::Str(format!("{}", a))),
        "nfs" => match eval(rest) {
            (V::Str(s), r) => (V::Num(Num::from_string(s)), r),
            _ => panic!("type"),
        },
        _ => panic!("unknown op {}", t),
    }
}

fn b01(b: bool) -> &'static str {
    if b {
        "1"
    } else {
        "0"
    }
}

pub fn render(v: V) -> String {
    match v {
        V::Big(a) => format!("B:{}:{}:{}", a, b01(a.is_pos()), b01(a.is_zero())),
        V::Num(a) => format!("N:{}:{}:{}", a, b01(a.is_pos()), b01(a.is_nan())),
        V::Bool(b) => format!("b:{}", b01(b)),
        V::Cmp(None) => "c:None".to_string(),
        V::Cmp(Some(Ordering::Less)) => "c:Lt".to_string(),
        V::Cmp(Some(Ordering::Equal)) => "c:Eq".to_string(),
        V::Cmp(Some(Ordering::Greater)) => "c:Gt".to_string(),
        V::Str(s) => format!("s:{}", s),
        V::Err(e) => format!("e:{}", e),
        V::Int(_) => "i:?".to_string(),
        V::U(u) => format!("u:{}", u),
    }
}

pub fn handle(toks: &[&str]) -> String {
    let (v, rest) = eval(toks);
    if rest.is_empty() {
        render(v)
    } else {
        "bad:trailing".to_string()
    }
}
