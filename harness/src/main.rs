// Implementation evaluator: reads one case per line on stdin, runs it against the real hyeong
// library built from /repo's working tree, prints one canonical result line per case.
mod execl;
mod numl;
mod optl;
mod parsel;

use std::io::Write;
use std::panic;

fn main() {
    panic::set_hook(Box::new(|_| {}));
    let args: Vec<String> = std::env::args().collect();
    if args.len() > 2 && args[1] == "--child" {
        // optimize()/build_source() may read stdin or exit the process: they run in a child of their own
        if args[2] == "optstate" || args[2] == "compile" {
            let toks: Vec<&str> = args[3..].iter().map(|s| s.as_str()).collect();
            let r = if args[2] == "optstate" { optl::handle_state(&toks) } else { optl::handle_compile(&toks) };
            println!("R {}", r);
            return;
        }
        execl::child(&args[2..]);
        return;
    }
    // read every case first: library code under test may itself touch the process's stdin
    let mut all = String::new();
    {
        use std::io::Read;
        std::io::stdin().lock().read_to_string(&mut all).unwrap();
    }
    let stdout = std::io::stdout();
    let mut out = std::io::BufWriter::new(stdout.lock());
    for line in all.lines() {
        let line = line.to_string();
        let toks: Vec<&str> = line.split(' ').filter(|s| !s.is_empty()).collect();
        let res = panic::catch_unwind(|| match toks.first() {
            Some(&"num") => numl::handle(&toks[1..]),
            Some(&"parse") => parsel::handle(&toks[1..]),
            Some(&"reparse") => parsel::handle_reparse(&toks[1..]),
            Some(&"compile") => execl::in_child("compile", &toks[1..]),
            Some(&"dbgstates") => execl::handle_dbgstates(&toks[1..]),
            Some(&"opt") => match toks.get(1) {
                Some(&"state") => execl::in_child("optstate", &toks[2..]),
                _ => "bad:mode".to_string(),
            },
            Some(&"exec") => match toks.get(1) {
                Some(&"pre") => execl::handle_pre(&toks[2..]),
                Some(&"run") => execl::handle_run(&toks[2..]),
                _ => "bad:mode".to_string(),
            },
            _ => "bad:layer".to_string(),
        });
        match res {
            Ok(s) => writeln!(out, "{}", s).unwrap(),
            Err(_) => writeln!(out, "panic").unwrap(),
        }
    }
}
