// Implementation evaluator: reads one case per line on stdin, runs it against the real hyeong
// library built from /repo's working tree, prints one canonical result line per case.
mod execl;
mod numl;
mod optl;
mod parsel;

use std::io::{BufRead, Write};
use std::panic;

fn main() {
    panic::set_hook(Box::new(|_| {}));
    let args: Vec<String> = std::env::args().collect();
    if args.len() > 2 && args[1] == "--child" {
        execl::child(&args[2..]);
        return;
    }
    let stdin = std::io::stdin();
    let stdout = std::io::stdout();
    let mut out = std::io::BufWriter::new(stdout.lock());
    for line in stdin.lock().lines() {
        let line = line.unwrap();
        let toks: Vec<&str> = line.split(' ').filter(|s| !s.is_empty()).collect();
        let res = panic::catch_unwind(|| match toks.first() {
            Some(&"num") => numl::handle(&toks[1..]),
            Some(&"parse") => parsel::handle(&toks[1..]),
            Some(&"reparse") => parsel::handle_reparse(&toks[1..]),
            Some(&"compile") => optl::handle_compile(&toks[1..]),
            Some(&"dbgstates") => execl::handle_dbgstates(&toks[1..]),
            Some(&"opt") => match toks.get(1) {
                Some(&"state") => optl::handle_state(&toks[2..]),
                _ => "bad:mode".to_string(),
            },
            Some(&"exec") => match toks.get(1) {
                Some(&"pre") => execl::handle_pre(&toks[2..]),
                Some(&"run") => execl::handle_run(&toks[2..]),
                _ => "bad:mode".to_string(),
            },
            _ => "bad:layer".to_string(),
        });
        match res {
            Ok(s) => writeln!(out, "{}", s).unwrap(),
            Err(_) => writeln!(out, "panic").unwrap(),
        }
    }
}
