// Implementation evaluator, parser layer: parse::parse on a text given as code points.
use hyeong::core::code::{Code, UnOptCode};
use hyeong::core::parse;

pub fn text_of(field: &str) -> String {
    if field.is_empty() {
        String::new()
    } else {
        field
            .split(',')
            .map(|x| std::char::from_u32(x.parse::<u32>().unwrap()).unwrap())
            .collect()
    }
}

fn dotted(s: &str) -> String {
    s.chars().map(|c| (c as u32).to_string()).collect::<Vec<_>>().join(".")
}

pub fn render_ucode(u: &UnOptCode) -> String {
    format!(
        "{},{},{},{},{},{},{},{}",
        u.get_type(),
        u.get_hangul_count(),
        u.get_dot_count(),
        u.get_location().0,
        u.get_location().1,
        dotted(&format!("{:?}", u.get_area())),
        dotted(&format!("{}", u.get_area())),
        dotted(&u.get_raw())
    )
}

pub fn handle(toks: &[&str]) -> String {
    let text = if toks.is_empty() { String::new() } else { text_of(toks[0]) };
    let cmds = parse::parse(text);
    cmds.iter().map(render_ucode).collect::<Vec<_>>().join("|")
}

fn render_stripped(u: &UnOptCode) -> String {
    format!(
        "{},{},{},{}",
        u.get_type(),
        u.get_hangul_count(),
        u.get_dot_count(),
        dotted(&format!("{:?}", u.get_area()))
    )
}

pub fn handle_reparse(toks: &[&str]) -> String {
    let text = if toks.is_empty() { String::new() } else { text_of(toks[0]) };
    let cmds = parse::parse(text);
    let joined: String = cmds.iter().map(|u| u.get_raw()).collect();
    let again = parse::parse(joined);
    format!(
        "{}#{}",
        cmds.iter().map(render_stripped).collect::<Vec<_>>().join("|"),
        again.iter().map(render_stripped).collect::<Vec<_>>().join("|")
    )
}
