// Implementation evaluator, optimiser layer: optimize::optimize at library level.
use crate::execl::{err_str, render_state};
use crate::parsel::text_of;
use hyeong::core::code::Code;
use hyeong::core::state::State;
use hyeong::core::{optimize, parse};

fn dotted(s: &str) -> String {
    s.chars().map(|c| (c as u32).to_string()).collect::<Vec<_>>().join(".")
}

// opt state <level> <prog>
pub fn handle_state(toks: &[&str]) -> String {
    let level: u8 = toks[0].parse().unwrap();
    let code = parse::parse(if toks.len() > 1 { text_of(toks[1]) } else { String::new() });
    match optimize::optimize(code, level) {
        Ok((mut st, rest)) => {
            // captured output sits on stacks 1 and 2 as code points
            let cap = |st: &mut hyeong::core::state::OptState, i: usize| -> String {
                if i < st.stack_size() {
                    let v = st.get_stack(i).iter().map(|n| n.to_string()).collect::<Vec<_>>().join(".");
                    st.get_stack(i).clear();
                    v
                } else {
                    String::new()
                }
            };
            let o = cap(&mut st, 1);
            let e = cap(&mut st, 2);
            let log = st.get_all_code().len();
            let rs = rest
                .iter()
                .map(|c| {
                    format!(
                        "{},{},{},{},{}",
                        c.get_type(),
                        c.get_hangul_count(),
                        c.get_dot_count(),
                        c.get_area_count(),
                        dotted(&format!("{:?}", c.get_area()))
                    )
                })
                .collect::<Vec<_>>()
                .join(";");
            format!("ok|{}|o={}|e={}|log={}|rest={}", render_state(&mut st), o, e, log, rs)
        }
        Err(e) => err_str(&e),
    }
}

// compile <level> <prog>: compile::build_source as wired in app/build.rs; result = hex of the emitted Rust source
pub fn handle_compile(toks: &[&str]) -> String {
    use hyeong::core::compile;
    use hyeong::core::state::UnOptState;
    let level: u8 = toks[0].parse().unwrap();
    let code = parse::parse(if toks.len() > 1 { text_of(toks[1]) } else { String::new() });
    let src = if level >= 1 {
        match optimize::optimize(code, level) {
            Ok((state, opt)) => compile::build_source(state, &opt, level),
            Err(e) => return err_str(&e),
        }
    } else {
        compile::build_source(UnOptState::new(), &code, level)
    };
    format!("src:{}", src.bytes().map(|b| format!("{:02x}", b)).collect::<String>())
}
