// Implementation evaluator, interpreter layer.  execute_one / execute may call process::exit, so every
// case runs in a child process (this same binary with --child) whose stdout carries a trace:
//   S <state>|pc=<next>      after every completed step
//   O <hex bytes> / E <hex>  whenever the program writes to its stdout / stderr
//   END:<outcome>            unless the process exits inside the library
use crate::parsel::text_of;
use hyeong::core::code::UnOptCode;
use hyeong::core::state::{State, UnOptState};
use hyeong::core::{execute, parse};
use hyeong::util::error::Error;
use hyeong::util::io::ReadLine;
use std::io::Write;
use std::process::{Command, Stdio};

pub struct LineReader {
    lines: Vec<Option<String>>,
    idx: usize,
}

impl LineReader {
    pub fn new(field: &str) -> LineReader {
        // code points; 1114112 inside a line marks it as "not valid UTF-8"
        let mut lines = Vec::new();
        let mut cur = String::new();
        let mut bad = false;
        let mut any = false;
        if !field.is_empty() {
            for x in field.split(',') {
                let c: u32 = x.parse().unwrap();
                any = true;
                if c == 1114112 {
                    bad = true;
                } else {
                    cur.push(std::char::from_u32(c).unwrap());
                }
                if c == 10 {
                    lines.push(if bad { None } else { Some(cur.clone()) });
                    cur.clear();
                    bad = false;
                    any = false;
                }
            }
            if any {
                lines.push(if bad { None } else { Some(cur) });
            }
        }
        LineReader { lines, idx: 0 }
    }
}

impl ReadLine for LineReader {
    fn read_line_(&mut self) -> Result<String, Error> {
        if self.idx == self.lines.len() {
            Ok(String::new())
        } else {
            let r = self.lines[self.idx].clone();
            self.idx += 1;
            match r {
                Some(s) => Ok(s),
                None => Err(Error::new("hv-io", "")),
            }
        }
    }
}

pub struct TraceW(pub char);

impl Write for TraceW {
    fn write(&mut self, buf: &[u8]) -> std::io::Result<usize> {
        if !buf.is_empty() {
            let hex: String = buf.iter().map(|b| format!("{:02x}", b)).collect();
            println!("{} {}", self.0, hex);
        }
        Ok(buf.len())
    }
    fn flush(&mut self) -> std::io::Result<()> {
        Ok(())
    }
}

pub fn render_state<T: State>(s: &mut T) -> String {
    let mut idx = s.get_all_stack_index();
    idx.sort_unstable();
    let mut parts = Vec::new();
    for i in idx {
        let st = s.get_stack(i);
        if st.is_empty() {
            continue;
        }
        let vals: Vec<String> = st
            .iter()
            .map(|x| if x.is_nan() { "nan".to_string() } else { format!("{}", x) })
            .collect();
        parts.push(format!("{}:{}", i, vals.join(",")));
    }
    let mut pts = s.get_all_point();
    pts.sort_unstable();
    format!(
        "c={}|s={}|l={}|p={}",
        s.current_stack(),
        parts.join(";"),
        match s.get_latest_loc() {
            Some(l) => l.to_string(),
            None => "-".to_string(),
        },
        pts.iter().map(|(a, b)| format!("{}:{}", a, b)).collect::<Vec<_>>().join(",")
    )
}

pub fn err_str(e: &Error) -> String {
    let m = e.get_msg();
    if m == "hv-io" {
        "err:io".to_string()
    } else {
        // the only other error the interpreter can raise is the output-encoding error; its wording is not fixed by any
        // property: the value is the first decimal numeral of the diagnostic (message, then note)
        let text = format!("{} | {}", e.get_note(), m);
        let n: String = text.chars().skip_while(|c| !c.is_ascii_digit()).take_while(|c| c.is_ascii_digit()).collect();
        format!("err:enc:{}", n)
    }
}

pub fn child(args: &[String]) {
    // args: mode maxsteps prog stdin
    let mode = args[0].as_str();
    if mode == "optimize" {
        // args: optimize <level> <prog>; stdin carries a sentinel that must stay unread
        let level: u8 = args[1].parse().unwrap();
        let code = parse::parse(text_of(if args.len() > 2 { &args[2] } else { "" }));
        let res = hyeong::core::optimize::optimize(code, level);
        let tag = match res {
            Ok((_, rest)) => format!("ok:{}", rest.len()),
            Err(e) => err_str(&e),
        };
        let mut rest = Vec::new();
        use std::io::Read;
        std::io::stdin().read_to_end(&mut rest).unwrap();
        let hex: String = rest.iter().map(|b| format!("{:02x}", b)).collect();
        println!("HV-OPT-DONE {} SENTINEL {}", tag, hex);
        return;
    }
    if mode == "dbgstates" {
        // args: dbgstates <maxsteps> <prog>: Debug rendering of the state after 0..n steps, hex-encoded
        let maxsteps: usize = args[1].parse().unwrap();
        let code = parse::parse(text_of(if args.len() > 2 { &args[2] } else { "" }));
        let mut state = UnOptState::new();
        for c in &code {
            state.push_code(c.clone());
        }
        let mut ipt = LineReader::new("");
        let mut out = std::io::sink();
        let mut err = std::io::sink();
        let mut pc = 0usize;
        let hexs = |s: &str| -> String { s.bytes().map(|b| format!("{:02x}", b)).collect() };
        // T: the state itself, read through the State API: selected stack, then every non-empty stack with the Debug text
        // of each of its elements (what any faithful display of the state has to show)
        fn truth(s: &mut UnOptState) -> String {
            let hexs = |s: &str| -> String { s.bytes().map(|b| format!("{:02x}", b)).collect() };
            let mut idx = s.get_all_stack_index();
            idx.sort_unstable();
            let mut parts = Vec::new();
            for i in idx {
                let st = s.get_stack(i);
                if st.is_empty() {
                    continue;
                }
                let vals: Vec<String> = st.iter().map(|x| hexs(&format!("{:?}", x))).collect();
                parts.push(format!("{}:{}", i, vals.join(".")));
            }
            format!("{} {}", s.current_stack(), parts.join(";"))
        }
        println!("D {}", hexs(&format!("{:?}", state)));
        println!("T {}", truth(&mut state));
        for _ in 0..maxsteps {
            if pc >= code.len() {
                break;
            }
            match execute::execute_one(&mut ipt, &mut out, &mut err, state, pc) {
                Ok((st, npc)) => {
                    println!("D {}", hexs(&format!("{:?}", st)));
                    state = st;
                    println!("T {}", truth(&mut state));
                    pc = npc;
                }
                Err(_) => break,
            }
        }
        return;
    }
    let maxsteps: usize = args[1].parse().unwrap();
    let code: Vec<UnOptCode> = parse::parse(text_of(&args[2]));
    let mut ipt = LineReader::new(if args.len() > 3 { &args[3] } else { "" });
    let mut out = TraceW('O');
    let mut err = TraceW('E');
    match mode {
        "pre" => {
            let mut state = UnOptState::new();
            for c in &code {
                state.push_code(c.clone());
            }
            let mut pc = 0usize;
            for _ in 0..maxsteps {
                if pc >= code.len() {
                    println!("END:done");
                    return;
                }
                match execute::execute_one(&mut ipt, &mut out, &mut err, state, pc) {
                    Ok((mut st, npc)) => {
                        println!("S {}|pc={}", render_state(&mut st), npc);
                        state = st;
                        pc = npc;
                    }
                    Err(e) => {
                        println!("END:{}", err_str(&e));
                        return;
                    }
                }
            }
            if pc >= code.len() {
                println!("END:done");
            } else {
                println!("END:fuel");
            }
        }
        // "inc": the loop of run.rs at level 0 (execute per command); no step budget: the parent's time limit applies
        _ => {
            let mut state = UnOptState::new();
            for c in &code {
                match execute::execute(&mut ipt, &mut out, &mut err, state, c) {
                    Ok(st) => state = st,
                    Err(e) => {
                        println!("END:{}", err_str(&e));
                        return;
                    }
                }
            }
            println!("END:done");
        }
    }
}

fn dotted_bytes(b: &[u8]) -> String {
    String::from_utf8_lossy(b).chars().map(|c| (c as u32).to_string()).collect::<Vec<_>>().join(".")
}

fn unhex(s: &str) -> Vec<u8> {
    (0..s.len() / 2).map(|i| u8::from_str_radix(&s[2 * i..2 * i + 2], 16).unwrap()).collect()
}

pub fn run_child(mode: &str, toks: &[&str], timeout_ms: u64) -> (Vec<String>, Option<i32>, bool) {
    let exe = std::env::current_exe().unwrap();
    let mut cmd = Command::new(exe);
    cmd.arg("--child").arg(mode);
    for t in toks {
        cmd.arg(t);
    }
    if toks.len() < 3 {
        cmd.arg("");
    }
    let mut ch = cmd.stdin(Stdio::null()).stdout(Stdio::piped()).stderr(Stdio::null()).spawn().unwrap();
    let mut so = ch.stdout.take().unwrap();
    let h = std::thread::spawn(move || {
        let mut s = Vec::new();
        use std::io::Read;
        so.read_to_end(&mut s).ok();
        s
    });
    let t0 = std::time::Instant::now();
    let mut timed_out = false;
    let status = loop {
        match ch.try_wait().unwrap() {
            Some(st) => break Some(st),
            None => {
                if t0.elapsed().as_millis() as u64 > timeout_ms {
                    ch.kill().ok();
                    ch.wait().ok();
                    timed_out = true;
                    break None;
                }
                std::thread::sleep(std::time::Duration::from_millis(2));
            }
        }
    };
    let outb = h.join().unwrap();
    let lines: Vec<String> = String::from_utf8_lossy(&outb).lines().map(|s| s.to_string()).collect();
    (lines, status.and_then(|s| s.code()), timed_out)
}

// exec pre <maxsteps> <prog> <stdin>
pub fn handle_pre(toks: &[&str]) -> String {
    let (lines, code, timed_out) = run_child("pre", toks, 20000);
    let mut res = String::new();
    let (mut po, mut pe): (Vec<u8>, Vec<u8>) = (Vec::new(), Vec::new());
    let mut ended: Option<String> = None;
    for l in &lines {
        if let Some(r) = l.strip_prefix("O ") {
            po.extend(unhex(r));
        } else if let Some(r) = l.strip_prefix("E ") {
            pe.extend(unhex(r));
        } else if let Some(r) = l.strip_prefix("S ") {
            res.push_str(&format!("{}|o+={}|e+={};;", r, dotted_bytes(&po), dotted_bytes(&pe)));
            po.clear();
            pe.clear();
        } else if l.starts_with("END:") {
            ended = Some(l.clone());
        }
    }
    let end = match ended {
        Some(e) => e,
        None => {
            if timed_out {
                "END:timeout".to_string()
            } else {
                match code {
                    Some(0) => "END:exit0".to_string(),
                    Some(1) => "END:exit1".to_string(),
                    Some(101) => "END:panic".to_string(),
                    Some(c) => format!("END:status{}", c),
                    None => "END:signal".to_string(),
                }
            }
        }
    };
    if end.starts_with("END:exit") || end.starts_with("END:err") || !po.is_empty() || !pe.is_empty() {
        res.push_str(&format!("X|o+={}|e+={};;", dotted_bytes(&po), dotted_bytes(&pe)));
    }
    res.push_str(&end);
    res
}

// exec run <fuel> <prog> <stdin>: whole-run observables of the incremental loop
pub fn handle_run(toks: &[&str]) -> String {
    let (lines, code, timed_out) = run_child("inc", toks, 5000);
    let (mut po, mut pe): (Vec<u8>, Vec<u8>) = (Vec::new(), Vec::new());
    let mut ended: Option<String> = None;
    for l in &lines {
        if let Some(r) = l.strip_prefix("O ") {
            po.extend(unhex(r));
        } else if let Some(r) = l.strip_prefix("E ") {
            pe.extend(unhex(r));
        } else if l.starts_with("END:") {
            ended = Some(l.clone());
        }
    }
    let end = match ended {
        Some(e) => e,
        None => {
            if timed_out {
                "END:fuel".to_string()
            } else {
                match code {
                    Some(0) => "END:exit0".to_string(),
                    Some(1) => "END:exit1".to_string(),
                    Some(101) => "END:panic".to_string(),
                    Some(c) => format!("END:status{}", c),
                    None => "END:signal".to_string(),
                }
            }
        }
    };
    format!("{}|o={}|e={}", end, dotted_bytes(&po), dotted_bytes(&pe))
}

// dbgstates <maxsteps> <prog>: comma-separated hex Debug strings of the states after 0..n steps
pub fn handle_dbgstates(toks: &[&str]) -> String {
    let (lines, _, _) = run_child("dbgstates", toks, 20000);
    format!(
        "{}|{}",
        lines.iter().filter_map(|l| l.strip_prefix("D ")).collect::<Vec<_>>().join(","),
        lines.iter().filter_map(|l| l.strip_prefix("T ")).collect::<Vec<_>>().join(",")
    )
}

// run a library-level operation in a child process (it may call process::exit or read stdin); the child prints "R <result>"
pub fn in_child(mode: &str, toks: &[&str]) -> String {
    let (lines, code, timed_out) = run_child(mode, toks, 20000);
    for l in &lines {
        if let Some(r) = l.strip_prefix("R ") {
            return r.to_string();
        }
    }
    if timed_out {
        "child:timeout".to_string()
    } else {
        format!("child:exit{}", code.map(|c| c.to_string()).unwrap_or_else(|| "signal".to_string()))
    }
}
