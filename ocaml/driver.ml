(* Model evaluator: reads one case per line on stdin, evaluates it with the functions extracted from
   the Coq development (module Model), prints one canonical result line per case.
   Nothing here is trusted to be right — a mistake shows up as a disagreement with the
   implementation evaluator — but it must not hide disagreements. *)
module ZZ = Z
open Model

(* ---- conversions between OCaml ints / zarith and the extracted inductive numbers ---- *)
let rec pos_of_z (x : ZZ.t) : positive =
  if ZZ.equal x ZZ.one then XH
  else if ZZ.is_even x then XO (pos_of_z (ZZ.shift_right x 1))
  else XI (pos_of_z (ZZ.shift_right x 1))
let n_of_z (x : ZZ.t) : n = if ZZ.sign x = 0 then N0 else Npos (pos_of_z x)
let z_of_z (x : ZZ.t) : z =
  if ZZ.sign x = 0 then Z0 else if ZZ.sign x > 0 then Zpos (pos_of_z x) else Zneg (pos_of_z (ZZ.neg x))
let rec z_of_pos (p : positive) : ZZ.t =
  match p with
  | XH -> ZZ.one
  | XO q -> ZZ.shift_left (z_of_pos q) 1
  | XI q -> ZZ.succ (ZZ.shift_left (z_of_pos q) 1)
let zz_of_n (x : n) : ZZ.t = match x with N0 -> ZZ.zero | Npos p -> z_of_pos p
let int_of_n (x : n) : int = ZZ.to_int (zz_of_n x)
let n_of_int (i : int) : n = n_of_z (ZZ.of_int i)
let rec nat_of_int (i : int) : nat = if i <= 0 then O else S (nat_of_int (i - 1))
let rec int_of_nat (x : nat) : int = match x with O -> 0 | S y -> 1 + int_of_nat y

(* ---- text ---- *)
let utf8_of_cps (l : n list) : string =
  let b = Buffer.create 16 in
  List.iter (fun c ->
    let c = int_of_n c in
    if c < 0x80 then Buffer.add_char b (Char.chr c)
    else if c < 0x800 then begin
      Buffer.add_char b (Char.chr (0xC0 lor (c lsr 6)));
      Buffer.add_char b (Char.chr (0x80 lor (c land 0x3F))) end
    else if c < 0x10000 then begin
      Buffer.add_char b (Char.chr (0xE0 lor (c lsr 12)));
      Buffer.add_char b (Char.chr (0x80 lor ((c lsr 6) land 0x3F)));
      Buffer.add_char b (Char.chr (0x80 lor (c land 0x3F))) end
    else begin
      Buffer.add_char b (Char.chr (0xF0 lor (c lsr 18)));
      Buffer.add_char b (Char.chr (0x80 lor ((c lsr 12) land 0x3F)));
      Buffer.add_char b (Char.chr (0x80 lor ((c lsr 6) land 0x3F)));
      Buffer.add_char b (Char.chr (0x80 lor (c land 0x3F))) end) l;
  Buffer.contents b

let cps_of_field (s : string) : n list =   (* "1,2,3" -> code points ; "" -> [] *)
  if s = "" then [] else List.map (fun x -> n_of_z (ZZ.of_string x)) (String.split_on_char ',' s)
let field_of_cps (l : n list) : string = String.concat "," (List.map (fun c -> ZZ.to_string (zz_of_n c)) l)

(* ---- number layer: prefix expression language ---- *)
type dvalue =
  | VBig of big | VNum of num | VBool of bool | VCmp of comparison option
  | VStr of n list | VErr of string | VInt of z | VU of n

exception Bad of string

let big_lit (s : string) : big =   (* "+5,1" / "-5,1" *)
  let neg = s.[0] = '-' in
  let limbs = cps_of_field (String.sub s 1 (String.length s - 1)) in
  let b = from_vec limbs in if neg then bminus b else b

let rec eval (toks : string list) : dvalue * string list =
  match toks with
  | [] -> raise (Bad "eof")
  | t :: rest ->
    let c0 = t.[0] in
    if c0 = 'L' then (VBig (big_lit (String.sub t 1 (String.length t - 1))), rest)
    else if c0 = 'I' then (VInt (z_of_z (ZZ.of_string (String.sub t 1 (String.length t - 1)))), rest)
    else if c0 = 'U' then (VU (n_of_z (ZZ.of_string (String.sub t 1 (String.length t - 1)))), rest)
    else if c0 = 'T' then (VStr (cps_of_field (String.sub t 1 (String.length t - 1))), rest)
    else begin
      let big1 f = (match eval rest with (VBig a, r) -> (f a, r) | (VErr e, r) -> (VErr e, r) | _ -> raise (Bad t)) in
      let big2 f = (match eval rest with
        | (VBig a, r) -> (match eval r with (VBig b, r2) -> (f a b, r2) | (VErr e, r2) -> (VErr e, r2) | _ -> raise (Bad t))
        | (VErr e, r) -> let (_, r2) = eval r in (VErr e, r2)
        | _ -> raise (Bad t)) in
      let num1 f = (match eval rest with (VNum a, r) -> (f a, r) | (VErr e, r) -> (VErr e, r) | _ -> raise (Bad t)) in
      let num2 f = (match eval rest with
        | (VNum a, r) -> (match eval r with (VNum b, r2) -> (f a b, r2) | (VErr e, r2) -> (VErr e, r2) | _ -> raise (Bad t))
        | (VErr e, r) -> let (_, r2) = eval r in (VErr e, r2)
        | _ -> raise (Bad t)) in
      match t with
      | "add" | "addas" -> big2 (fun a b -> VBig (badd a b))
      | "sub" | "subas" -> big2 (fun a b -> VBig (bsub a b))
      | "mul" | "mulas" -> big2 (fun a b -> VBig (bmul a b))
      | "div" | "divas" -> big2 (fun a b -> VBig (bdiv a b))
      | "rem" | "remas" -> big2 (fun a b -> VBig (brem a b))
      | "gcd" -> big2 (fun a b -> match bgcd a b with Some g -> VBig g | None -> VErr "fuel")
      | "cmp" -> big2 (fun a b -> VCmp (Some (bcmp a b)))
      | "eq" -> big2 (fun a b -> VBool (beq a b))
      | "neg" -> big1 (fun a -> VBig (bneg a))
      | "minus" -> big1 (fun a -> VBig (bminus a))
      | "is_zero" -> big1 (fun a -> VBool (is_zero a))
      | "is_pos" -> big1 (fun a -> VBool a.bpos)
      | "to_int" -> big1 (fun a -> VU (to_int a))
      | "disp" -> big1 (fun a -> VStr (big_display a))
      | "new" -> (match eval rest with (VInt i, r) -> (VBig (bnew i), r) | _ -> raise (Bad t))
      | "tsb" -> (match eval rest with
                  | (VBig a, r) -> (match eval r with
                      | (VU b, r2) -> ((match to_string_base a b with TSOk s -> VStr s | TSBase -> VErr "base" | TSFuel -> VErr "fuel"), r2)
                      | _ -> raise (Bad t))
                  | _ -> raise (Bad t))
      | "fsb" -> (match eval rest with
                  | (VStr s, r) -> (match eval r with
                      | (VU b, r2) -> ((match from_string_base s b with FSOk a -> VBig a | FSBase -> VErr "base" | FSParse -> VErr "parse"), r2)
                      | _ -> raise (Bad t))
                  | _ -> raise (Bad t))
      | "N" -> big2 (fun a b -> VNum (from_big_num a b))
      | "nan" -> (VNum nan, rest)
      | "nnew" -> (match eval rest with
                   | (VInt i, r) -> (match eval r with (VInt j, r2) -> (VNum (nnew i j), r2) | _ -> raise (Bad t))
                   | _ -> raise (Bad t))
      | "fromnum" -> (match eval rest with (VInt i, r) -> (VNum (from_num i), r) | _ -> raise (Bad t))
      | "nadd" | "naddas" -> num2 (fun a b -> VNum (nadd a b))
      | "nmul" | "nmulas" -> num2 (fun a b -> VNum (nmul a b))
      | "nneg" -> num1 (fun a -> VNum (nneg a))
      | "nminus" -> num1 (fun a -> VNum (nminus a))
      | "nflip" -> num1 (fun a -> VNum (nflip a))
      | "floor" -> num1 (fun a -> VBig (floor a))
      | "nispos" -> num1 (fun a -> VBool (is_pos a))
      | "nisnan" -> num1 (fun a -> VBool (is_nan a))
      | "ncmp" -> num2 (fun a b -> VCmp (ncmp a b))
      | "neq" -> num2 (fun a b -> VBool (neq a b))
      | "ndisp" -> num1 (fun a -> VStr (num_display a))
      | "nfs" -> (match eval rest with
                  | (VStr s, r) -> ((match num_from_string s with Some x -> VNum x | None -> VErr "panic"), r)
                  | _ -> raise (Bad t))
      | _ -> raise (Bad ("unknown op " ^ t))
    end

let b01 b = if b then "1" else "0"
(* results are rendered from the limbs with zarith (sign flag, then the decimal magnitude — what Display prints); the model's
   own radix conversion is quadratic in the extracted arithmetic and is exercised by the disp / tsb / ndisp / nfs operations *)
let fast_big (a : big) : string = (if a.bpos then "" else "-") ^ ZZ.to_string (zz_of_n (lval a.limbs))
let fast_num (x : num) : string =
  if is_nan x then utf8_of_cps nAN_TEXT
  else if beq x.down bone then fast_big x.up else fast_big x.up ^ "/" ^ fast_big x.down
let render (v : dvalue) : string =
  match v with
  | VBig a -> Printf.sprintf "B:%s:%s:%s" (fast_big a) (b01 a.bpos) (b01 (is_zero a))
  | VNum a -> Printf.sprintf "N:%s:%s:%s" (fast_num a) (b01 (is_pos a)) (b01 (is_nan a))
  | VBool b -> "b:" ^ b01 b
  | VCmp None -> "c:None" | VCmp (Some Lt) -> "c:Lt" | VCmp (Some Eq) -> "c:Eq" | VCmp (Some Gt) -> "c:Gt"
  | VStr s -> "s:" ^ utf8_of_cps s
  | VErr e -> "e:" ^ e
  | VInt _ -> "i:?"
  | VU u -> "u:" ^ ZZ.to_string (zz_of_n u)

let handle_num (toks : string list) : string =
  match eval toks with
  | (v, []) -> render v
  | (_, _) -> "bad:trailing"

(* ---- parser layer ---- *)
let dotted (l : n list) : string = String.concat "." (List.map (fun c -> ZZ.to_string (zz_of_n c)) l)
let render_ucode (u : ucode) : string =
  Printf.sprintf "%s,%s,%s,%s,%s,%s,%s,%s"
    (ZZ.to_string (zz_of_n u.ty)) (ZZ.to_string (zz_of_n u.hc)) (ZZ.to_string (zz_of_n u.dc))
    (ZZ.to_string (zz_of_n (fst u.loc))) (ZZ.to_string (zz_of_n (snd u.loc)))
    (dotted (area_debug u.ar)) (dotted (area_display u.ar)) (dotted u.raw)
let handle_parse (pre : bool) (toks : string list) : string =
  let text = match toks with [] -> [] | t :: _ -> cps_of_field t in
  let cmds = if pre then parse_pre_fix text else parse text in
  String.concat "|" (List.map render_ucode cmds)

let render_stripped (u : ucode) : string =
  Printf.sprintf "%s,%s,%s,%s"
    (ZZ.to_string (zz_of_n u.ty)) (ZZ.to_string (zz_of_n u.hc)) (ZZ.to_string (zz_of_n u.dc)) (dotted (area_debug u.ar))
let handle_parsespec (toks : string list) : string =
  let text = match toks with [] -> [] | t :: _ -> cps_of_field t in
  let t = decompose text in
  (if valid t && list_eq_dec N.eq_dec (flatten t) text then "" else "INVALID-DECOMPOSITION|")
  ^ String.concat "|" (List.map render_ucode (abstract t))
let handle_reparse (toks : string list) : string =
  let text = match toks with [] -> [] | t :: _ -> cps_of_field t in
  let cmds = parse text in
  let again = parse (List.concat (List.map (fun u -> u.raw) cmds)) in
  String.concat "|" (List.map render_stripped cmds) ^ "#" ^ String.concat "|" (List.map render_stripped again)

(* ---- interpreter layer ---- *)
(* the model's own decimal rendering, memoised: the same stack elements are rendered again after every step *)
let num_memo : (num, string) Hashtbl.t = Hashtbl.create 4096
let str_of_num (x : num) : string =
  if is_nan x then "nan"
  else match Hashtbl.find_opt num_memo x with
    | Some t -> t
    | None -> let t = utf8_of_cps (num_display x) in
              if Hashtbl.length num_memo > 200000 then Hashtbl.reset num_memo;
              Hashtbl.add num_memo x t; t
let nstr (x : n) : string = ZZ.to_string (zz_of_n x)
let render_state (s : state) : string =
  let stk = List.filter (fun (_, l) -> l <> []) s.stacks in
  let stk = List.sort (fun (a, _) (b, _) -> ZZ.compare (zz_of_n a) (zz_of_n b)) stk in
  let pts = List.sort (fun (a, _) (b, _) -> ZZ.compare (zz_of_n a) (zz_of_n b)) s.points in
  Printf.sprintf "c=%s|s=%s|l=%s|p=%s" (nstr s.cur)
    (String.concat ";" (List.map (fun (i, l) -> nstr i ^ ":" ^ String.concat "," (List.rev_map str_of_num l)) stk))
    (match s.latest with None -> "-" | Some l -> nstr l)
    (String.concat "," (List.map (fun (a, b) -> nstr a ^ ":" ^ nstr b) pts))
let rec split_lines (l : n list) (cur : n list) : n list option list =
  let fin cur = let line = List.rev cur in
    if List.exists (fun c -> int_of_n c = 1114112) line then None else Some line in
  match l with
  | [] -> if cur = [] then [] else [fin cur]
  | c :: r -> if int_of_n c = 10 then fin (c :: cur) :: split_lines r [] else split_lines r (c :: cur)
let delta (before : n list) (after : n list) : string =   (* both reversed buffers; after extends before *)
  let k = List.length after - List.length before in
  let rec take i l = if i <= 0 then [] else match l with [] -> [] | x :: r -> x :: take (i - 1) r in
  dotted (List.rev (take k after))
let outcome_str (f : final) : string =
  match f with
  | FDone _ -> "done" | FExit (c, _) -> "exit" ^ nstr c
  | FErr (EEnc n, _) -> "err:enc:" ^ nstr n | FErr (EIo, _) -> "err:io"
  | FFuel (_, _) -> "fuel" | FPanic _ -> "panic"
let prog_of (t : string) : xcode list = List.map xcode_of_ucode (parse (cps_of_field t))
(* exec pre <maxsteps> <prog> <stdin>: execute_one over the preloaded program, state after every step *)
let handle_exec_pre (toks : string list) : string =
  match toks with
  | ms :: prog :: rest ->
    let maxsteps = int_of_string ms in
    let code = prog_of prog in
    let input = split_lines (match rest with [] -> [] | t :: _ -> cps_of_field t) [] in
    let len = List.length code in
    let b = Buffer.create 256 in
    let rec go k (s : state) (pc : int) =
      if pc >= len then Buffer.add_string b "END:done"
      else if k >= maxsteps then Buffer.add_string b "END:fuel"
      else match execute_one (List.nth code pc) (n_of_int pc) s with
        | ROk (pc', s') ->
          Buffer.add_string b (Printf.sprintf "%s|pc=%s|o+=%s|e+=%s;;" (render_state s') (nstr pc') (delta s.outb s'.outb) (delta s.errb s'.errb));
          go (k + 1) s' (int_of_n pc')
        | RExit (c, s') -> Buffer.add_string b (Printf.sprintf "X|o+=%s|e+=%s;;END:exit%s" (delta s.outb s'.outb) (delta s.errb s'.errb) (nstr c))
        | RErr (e, s') -> Buffer.add_string b (Printf.sprintf "X|o+=%s|e+=%s;;END:%s" (delta s.outb s'.outb) (delta s.errb s'.errb)
                                                (match e with EEnc n -> "err:enc:" ^ nstr n | EIo -> "err:io")) in
    go 0 (state0 SUnopt input) 0;
    (* cross-check the model's own loop *)
    let f = run_pre (nat_of_int maxsteps) code (state0 SUnopt input) N0 in
    let tail = "END:" ^ outcome_str f in
    let res = Buffer.contents b in
    let n1 = String.length res and n2 = String.length tail in
    if n1 >= n2 && String.sub res (n1 - n2) n2 = tail then res else res ^ "##run_pre-disagrees:" ^ tail
  | _ -> "bad:args"
(* exec run <fuel> <prog> <stdin>: the incremental loop of run.rs at level 0; whole-run observables *)
let handle_exec_run (toks : string list) : string =
  match toks with
  | ms :: prog :: rest ->
    let code = prog_of prog in
    let input = split_lines (match rest with [] -> [] | t :: _ -> cps_of_field t) [] in
    let f = run_inc (nat_of_int (int_of_string ms)) [] code (state0 SUnopt input) in
    let s = final_state f in
    Printf.sprintf "END:%s|o=%s|e=%s" (outcome_str f) (dotted (List.rev s.outb)) (dotted (List.rev s.errb))
  | _ -> "bad:args"

(* ---- L2 language definition ---- *)
let str_of_value (v : value) : string = match v with Model.VNaN -> "nan" | _ -> utf8_of_cps (value_text v)
let render_lstate (s : lstate) : string =
  let stk = List.filter (fun (_, l) -> l <> []) s.stk in
  let stk = List.sort (fun (a, _) (b, _) -> ZZ.compare (zz_of_n a) (zz_of_n b)) stk in
  let pts = List.sort (fun (a, _) (b, _) -> ZZ.compare (zz_of_n a) (zz_of_n b)) s.labels in
  Printf.sprintf "c=%s|s=%s|l=%s|p=%s" (nstr s.sel)
    (String.concat ";" (List.map (fun (i, l) -> nstr i ^ ":" ^ String.concat "," (List.rev_map str_of_value l)) stk))
    (match s.lastj with None -> "-" | Some l -> nstr l)
    (String.concat "," (List.map (fun (a, b) -> nstr a ^ ":" ^ nstr b) pts))
let sdelta (before : n list) (after : n list) : string =
  let rec drop i l = if i <= 0 then l else match l with [] -> [] | _ :: r -> drop (i - 1) r in
  dotted (drop (List.length before) after)
let sprog_of (t : string) : scmd list = List.map scmd_of_ucode (parse (cps_of_field t))
let serr_str e = match e with SEnc n -> "err:enc:" ^ nstr n | SIo -> "err:io"
let handle_spec_pre (toks : string list) : string =
  match toks with
  | ms :: prog :: rest ->
    let maxsteps = int_of_string ms in
    let code = sprog_of prog in
    let input = split_lines (match rest with [] -> [] | t :: _ -> cps_of_field t) [] in
    let len = List.length code in
    let b = Buffer.create 256 in
    let rec go k (s : lstate) (pc : int) =
      if pc >= len then Buffer.add_string b "END:done"
      else if k >= maxsteps then Buffer.add_string b "END:fuel"
      else let c = List.nth code pc in
        match sstep c.sk c.sn c.sd c.scount c.sa (n_of_int pc) s with
        | SOk (pc', s') ->
          Buffer.add_string b (Printf.sprintf "%s|pc=%s|o+=%s|e+=%s;;" (render_lstate s') (nstr pc') (sdelta s.out s'.out) (sdelta s.err s'.err));
          go (k + 1) s' (int_of_n pc')
        | SExit (c, s') -> Buffer.add_string b (Printf.sprintf "X|o+=%s|e+=%s;;END:exit%s" (sdelta s.out s'.out) (sdelta s.err s'.err) (nstr c))
        | SErr (e, s') -> Buffer.add_string b (Printf.sprintf "X|o+=%s|e+=%s;;END:%s" (sdelta s.out s'.out) (sdelta s.err s'.err) (serr_str e)) in
    go 0 (lstate0 input) 0;
    Buffer.contents b
  | _ -> "bad:args"
let handle_spec_run (toks : string list) : string =
  match toks with
  | ms :: prog :: rest ->
    let code = sprog_of prog in
    let input = split_lines (match rest with [] -> [] | t :: _ -> cps_of_field t) [] in
    (match srun (nat_of_int (int_of_string ms)) code (lstate0 input) N0 with
     | SDone s -> Printf.sprintf "END:done|o=%s|e=%s" (dotted s.out) (dotted s.err)
     | SExited (c, s) -> Printf.sprintf "END:exit%s|o=%s|e=%s" (nstr c) (dotted s.out) (dotted s.err)
     | SFailed (e, s) -> Printf.sprintf "END:%s|o=%s|e=%s" (serr_str e) (dotted s.out) (dotted s.err)
     | SRunning (s, _) -> Printf.sprintf "END:fuel|o=%s|e=%s" (dotted s.out) (dotted s.err))
  | _ -> "bad:args"

(* ---- optimiser layer ---- *)
let fixes_of (t : string) : fixes = if t = "optpin" then pinned else all_fixed
let render_xcode (c : xcode) : string =
  Printf.sprintf "%s,%s,%s,%s,%s" (nstr c.xty) (nstr c.xhc) (nstr c.xdc) (nstr c.xac) (dotted (area_debug c.xar))
(* opt|optpin run <level> <fuel> <prog> <stdin> *)
let handle_opt_run (which : string) (toks : string list) : string =
  match toks with
  | lv :: ms :: prog :: rest ->
    let code = parse (cps_of_field prog) in
    let input = split_lines (match rest with [] -> [] | t :: _ -> cps_of_field t) [] in
    let f = run_level (fixes_of which) (nat_of_int (int_of_string ms)) code (n_of_int (int_of_string lv)) input in
    let s = final_state f in
    Printf.sprintf "END:%s|o=%s|e=%s" (outcome_str f) (dotted (List.rev s.outb)) (dotted (List.rev s.errb))
  | _ -> "bad:args"
(* opt|optpin state <level> <prog>: the result of optimize() *)
let handle_opt_state (which : string) (toks : string list) : string =
  match toks with
  | lv :: rest ->
    let code = parse (cps_of_field (match rest with [] -> "" | t :: _ -> t)) in
    (match optimize_prog (fixes_of which) code (n_of_int (int_of_string lv)) [] with
     | OptOk r -> Printf.sprintf "ok|%s|o=%s|e=%s|log=%d|rest=%s" (render_state r.ostate)
                    (dotted (List.rev r.ostate.outb)) (dotted (List.rev r.ostate.errb)) (List.length r.olog)
                    (String.concat ";" (List.map render_xcode r.orest))
     | OptErr (EEnc n) -> "err:enc:" ^ nstr n
     | OptErr EIo -> "err:io"
     | OptStuck -> "stuck")
  | _ -> "bad:args"

(* ---- interactive interpreter ---- *)
let end_str (e : rend) : string =
  match e with
  | RAlive -> "alive" | RQuit -> "quit" | RProgExit c -> "exit" ^ nstr c
  | RFail (EEnc n) -> "err:enc:" ^ nstr n | RFail EIo -> "err:io" | RFuelOut -> "fuel" | RPanicked -> "panic"
(* repl <fx12:0|1> <fuel> <line>;<line>;...   (each line a code-point field, may be empty) *)
let handle_repl (toks : string list) : string =
  match toks with
  | fx :: ms :: rest ->
    let field = (match rest with [] -> "" | t :: _ -> t) in
    let lines = List.map cps_of_field (String.split_on_char ';' field) in
    let (evs, e) = repl_run (fx = "1") (nat_of_int (int_of_string ms)) lines in
    String.concat "|" (List.map (fun ev -> match ev with
        | EvNothing -> "N" | EvHelp -> "H" | EvFlush (o, x) -> "F:" ^ dotted o ^ ":" ^ dotted x) evs)
    ^ "|END:" ^ end_str e
  | _ -> "bad:args"

(* ---- debugger ---- *)
let dend_str (e : dend) : string =
  match e with
  | DEof -> "eof" | DQuit -> "quit" | DFinished -> "finished" | DProgExit c -> "exit" ^ nstr c
  | DFail (EEnc n) -> "err:enc:" ^ nstr n | DFail EIo -> "err:io" | DPanic -> "panic" | DFuelOut -> "fuel"
let devent_str (ev : devent) : string =
  match ev with
  | DvPrompt -> "P" | DvShowCode l -> "C:" ^ dotted l | DvFlush (o, e) -> "F:" ^ dotted o ^ ":" ^ dotted e
  | DvMovedBack -> "MB" | DvCantGoBack -> "CGB" | DvState k -> "S:" ^ nstr k | DvListBreaks -> "LB"
  | DvIntErr IEmpty -> "IE:Empty" | DvIntErr IInvalid -> "IE:InvalidDigit" | DvIntErr IOverflow -> "IE:PosOverflow"
  | DvRange -> "RG" | DvSet n -> "SET:" ^ nstr n | DvUnset n -> "UNSET:" ^ nstr n | DvHelp -> "H"
  | DvNotFound w -> "NF:" ^ dotted w
(* debug <fx11> <fx13> <fuel> <prog> <line>;<line>;... *)
let handle_debug (toks : string list) : string =
  match toks with
  | f11 :: f13 :: ms :: prog :: rest ->
    let code = prog_of prog in
    let field = (match rest with [] -> None | t :: _ -> Some t) in
    let lines = (match field with None -> [] | Some t -> List.map cps_of_field (String.split_on_char ';' t)) in
    let (evs, e) = debug_run (f11 = "1") (f13 = "1") (nat_of_int (int_of_string ms)) code lines in
    String.concat "|" (List.map devent_str evs) ^ "|END:" ^ dend_str e
  | _ -> "bad:args"

(* ---- command line ---- *)
(* cli <level> <fuel> <0|1|u> <file bytes> <stdin bytes> *)
let handle_cli (toks : string list) : string =
  match toks with
  | lv :: ms :: ext :: rest ->
    let fb = (match rest with [] -> "" | t :: _ -> if t = "-" then "" else t) in
    let sb = (match rest with _ :: t :: _ -> t | _ -> "") in
    let file = if ext = "u" then FUnreadable else FBytes (ext = "1", cps_of_field fb) in
    let r = run_cli (n_of_int (int_of_string lv)) file (cps_of_field sb) (nat_of_int (int_of_string ms)) in
    (match r with
     | CExit (c, o, e) -> Printf.sprintf "exit:%s|o=%s|e=%s" (nstr c) (dotted o) (dotted e)
     | CDiag (k, o, e) -> Printf.sprintf "diag:%s|o=%s|e=%s"
                            (match k with DgFile -> "file" | DgExt -> "ext" | DgUtf8File -> "utf8file" | DgUtf8Stdin -> "utf8stdin" | DgEnc n -> "enc:" ^ nstr n)
                            (dotted o) (dotted e)
     | CPanic -> "panic" | CRunning -> "running")
  | _ -> "bad:args"

(* ---- compiler ---- *)
let rec tree_bounds (t : dtree) : string list =
  match t with DLeaf _ -> [] | DNode (b, lo, hi) -> nstr b :: (tree_bounds lo @ tree_bounds hi)
(* compir <fx89> <level> <prog>: the IR the compiler model builds *)
let handle_compir (toks : string list) : string =
  match toks with
  | f89 :: lv :: rest ->
    let code = parse (cps_of_field (match rest with [] -> "" | t :: _ -> t)) in
    (match compile_prog all_fixed (f89 = "1") code (n_of_int (int_of_string lv)) with
     | None -> "none"
     | Some p ->
       let n = List.length p.ir_blocks in
       Printf.sprintf "blocks=%d|sizes=%s|start=%s|last=%s|cur=%s|points=%s|tree=%s|stacks=%s|out=%s|err=%s" n
         (String.concat "," (List.map (fun b -> string_of_int (List.length b)) p.ir_blocks))
         (nstr p.ir_start) (match p.ir_last with None -> "-" | Some l -> nstr l) (nstr p.ir_cur)
         (String.concat "," (List.map (fun (a, b) -> nstr a ^ ":" ^ nstr b)
            (List.sort (fun (a, _) (b, _) -> ZZ.compare (zz_of_n a) (zz_of_n b)) p.ir_points)))
         (String.concat "," (tree_bounds (dispatch_tree (n_of_int n))))
         (String.concat ";" (List.map (fun (i, l) -> nstr i ^ ":" ^ String.concat "," (List.map utf8_of_cps l))
            (List.sort (fun (a, _) (b, _) -> ZZ.compare (zz_of_n a) (zz_of_n b)) p.ir_stacks)))
         (dotted p.ir_out) (dotted p.ir_err))
  | _ -> "bad:args"
(* comp <fx89> <level> <fuel> <prog> <stdin>: run the IR *)
let handle_comp (toks : string list) : string =
  match toks with
  | f89 :: lv :: ms :: prog :: rest ->
    let code = parse (cps_of_field prog) in
    let input = split_lines (match rest with [] -> [] | t :: _ -> cps_of_field t) [] in
    (match compile_prog all_fixed (f89 = "1") code (n_of_int (int_of_string lv)) with
     | None -> "none"
     | Some p ->
       let fin = ir_run (nat_of_int (int_of_string ms)) p input in
       let show tag (s : state) = Printf.sprintf "END:%s|o=%s|e=%s" tag (dotted (List.rev s.outb)) (dotted (List.rev s.errb)) in
       (match fin with
        | IDone s -> show "done" s | IExit (c, s) -> show ("exit" ^ nstr c) s
        | IAbort (k, s) -> show ("err:enc:" ^ nstr k) s | IIoErr s -> show "err:io" s
        | IFuel s -> show "fuel" s | IBadState -> "END:badstate|o=|e="))
  | _ -> "bad:args"

(* a per-case time limit: programs whose values double in size with every round of a loop cannot be evaluated to the step
   budget by anything; the answer "timeout" makes the checks skip the case (HV_CASE_TIMEOUT seconds, default 30) *)
exception Case_timeout
let case_limit = try int_of_string (Sys.getenv "HV_CASE_TIMEOUT") with _ -> 30
let () = Sys.set_signal Sys.sigalrm (Sys.Signal_handle (fun _ -> raise Case_timeout))

let () =
  try
    while true do
      let line = input_line stdin in
      ignore (Unix.alarm case_limit);
      let toks = List.filter (fun s -> s <> "") (String.split_on_char ' ' line) in
      let out =
        try
          match toks with
          | "num" :: rest -> handle_num rest
          | "parse" :: rest -> handle_parse false rest
          | "parsepre" :: rest -> handle_parse true rest
          | "parsespec" :: rest -> handle_parsespec rest
          | "reparse" :: rest -> handle_reparse rest
          | "exec" :: "pre" :: rest -> handle_exec_pre rest
          | "exec" :: "run" :: rest -> handle_exec_run rest
          | "spec" :: "pre" :: rest -> handle_spec_pre rest
          | "repl" :: rest -> handle_repl rest
          | "debug" :: rest -> handle_debug rest
          | "cli" :: rest -> handle_cli rest
          | "listingraw" :: fname :: text :: ids ->
            (* listingraw <file name> <text> <i.j.k>: what the debugger echoes for these command indices (raw = true) *)
            let cmds = parse (cps_of_field text) in
            let want = match ids with [] -> [] | t :: _ -> List.map int_of_string (List.filter (fun x -> x <> "") (String.split_on_char '.' t)) in
            let es = List.filter_map (fun i -> match List.nth_opt cmds i with Some c -> Some (n_of_int i, c) | None -> None) want in
            (match listing_text true (cps_of_field fname) es with Some t -> "ok:" ^ dotted t | None -> "panic")
          | "listing" :: fname :: rest ->
            (* listing <file name> <text>: the text `hyeong check` prints for the file (Model/Listing.v), or panic *)
            let text = match rest with [] -> [] | t :: _ -> cps_of_field t in
            (match check_listing (cps_of_field fname) text with Some t -> "ok:" ^ dotted t | None -> "panic")
          | "tables" :: _ -> Printf.sprintf "single=%s|start=%s|hearts=%s|nan=%s" (dotted sINGLE) (dotted sTART) (dotted hEARTS) (dotted nAN_TEXT)
          | "compir" :: rest -> handle_compir rest
          | "comp" :: rest -> handle_comp rest
          | ("opt" | "optpin" as w) :: "run" :: rest -> handle_opt_run w rest
          | ("opt" | "optpin" as w) :: "state" :: rest -> handle_opt_state w rest
          | "spec" :: "run" :: rest -> handle_spec_run rest
          | _ -> "bad:layer"
        with Bad m -> "bad:" ^ m | Stack_overflow -> "bad:stack" | Case_timeout -> "timeout" in
      ignore (Unix.alarm 0);
      print_string out; print_newline ()
    done
  with End_of_file -> ()
