(* Model evaluator: reads one case per line on stdin, evaluates it with the functions extracted from
   the Coq development (module Model), prints one canonical result line per case.
   Nothing here is trusted to be right — a mistake shows up as a disagreement with the
   implementation evaluator — but it must not hide disagreements. *)
module ZZ = Z
open Model

(* ---- conversions between OCaml ints / zarith and the extracted inductive numbers ---- *)
let rec pos_of_z (x : ZZ.t) : positive =
  if ZZ.equal x ZZ.one then XH
  else if ZZ.is_even x then XO (pos_of_z (ZZ.shift_right x 1))
  else XI (pos_of_z (ZZ.shift_right x 1))
let n_of_z (x : ZZ.t) : n = if ZZ.sign x = 0 then N0 else Npos (pos_of_z x)
let z_of_z (x : ZZ.t) : z =
  if ZZ.sign x = 0 then Z0 else if ZZ.sign x > 0 then Zpos (pos_of_z x) else Zneg (pos_of_z (ZZ.neg x))
let rec z_of_pos (p : positive) : ZZ.t =
  match p with
  | XH -> ZZ.one
  | XO q -> ZZ.shift_left (z_of_pos q) 1
  | XI q -> ZZ.succ (ZZ.shift_left (z_of_pos q) 1)
let zz_of_n (x : n) : ZZ.t = match x with N0 -> ZZ.zero | Npos p -> z_of_pos p
let int_of_n (x : n) : int = ZZ.to_int (zz_of_n x)
let n_of_int (i : int) : n = n_of_z (ZZ.of_int i)
let rec nat_of_int (i : int) : nat = if i <= 0 then O else S (nat_of_int (i - 1))
let rec int_of_nat (x : nat) : int = match x with O -> 0 | S y -> 1 + int_of_nat y

(* ---- text ---- *)
let utf8_of_cps (l : n list) : string =
  let b = Buffer.create 16 in
  List.iter (fun c ->
    let c = int_of_n c in
    if c < 0x80 then Buffer.add_char b (Char.chr c)
    else if c < 0x800 then begin
      Buffer.add_char b (Char.chr (0xC0 lor (c lsr 6)));
      Buffer.add_char b (Char.chr (0x80 lor (c land 0x3F))) end
    else if c < 0x10000 then begin
      Buffer.add_char b (Char.chr (0xE0 lor (c lsr 12)));
      Buffer.add_char b (Char.chr (0x80 lor ((c lsr 6) land 0x3F)));
      Buffer.add_char b (Char.chr (0x80 lor (c land 0x3F))) end
    else begin
      Buffer.add_char b (Char.chr (0xF0 lor (c lsr 18)));
      Buffer.add_char b (Char.chr (0x80 lor ((c lsr 12) land 0x3F)));
      Buffer.add_char b (Char.chr (0x80 lor ((c lsr 6) land 0x3F)));
      Buffer.add_char b (Char.chr (0x80 lor (c land 0x3F))) end) l;
  Buffer.contents b

let cps_of_field (s : string) : n list =   (* "1,2,3" -> code points ; "" -> [] *)
  if s = "" then [] else List.map (fun x -> n_of_z (ZZ.of_string x)) (String.split_on_char ',' s)
let field_of_cps (l : n list) : string = String.concat "," (List.map (fun c -> ZZ.to_string (zz_of_n c)) l)

(* ---- number layer: prefix expression language ---- *)
type value =
  | VBig of big | VNum of num | VBool of bool | VCmp of comparison option
  | VStr of n list | VErr of string | VInt of z | VU of n

exception Bad of string

let big_lit (s : string) : big =   (* "+5,1" / "-5,1" *)
  let neg = s.[0] = '-' in
  let limbs = cps_of_field (String.sub s 1 (String.length s - 1)) in
  let b = from_vec limbs in if neg then bminus b else b

let rec eval (toks : string list) : value * string list =
  match toks with
  | [] -> raise (Bad "eof")
  | t :: rest ->
    let c0 = t.[0] in
    if c0 = 'L' then (VBig (big_lit (String.sub t 1 (String.length t - 1))), rest)
    else if c0 = 'I' then (VInt (z_of_z (ZZ.of_string (String.sub t 1 (String.length t - 1)))), rest)
    else if c0 = 'U' then (VU (n_of_z (ZZ.of_string (String.sub t 1 (String.length t - 1)))), rest)
    else if c0 = 'T' then (VStr (cps_of_field (String.sub t 1 (String.length t - 1))), rest)
    else begin
      let big1 f = (match eval rest with (VBig a, r) -> (f a, r) | (VErr e, r) -> (VErr e, r) | _ -> raise (Bad t)) in
      let big2 f = (match eval rest with
        | (VBig a, r) -> (match eval r with (VBig b, r2) -> (f a b, r2) | (VErr e, r2) -> (VErr e, r2) | _ -> raise (Bad t))
        | (VErr e, r) -> let (_, r2) = eval r in (VErr e, r2)
        | _ -> raise (Bad t)) in
      let num1 f = (match eval rest with (VNum a, r) -> (f a, r) | (VErr e, r) -> (VErr e, r) | _ -> raise (Bad t)) in
      let num2 f = (match eval rest with
        | (VNum a, r) -> (match eval r with (VNum b, r2) -> (f a b, r2) | (VErr e, r2) -> (VErr e, r2) | _ -> raise (Bad t))
        | (VErr e, r) -> let (_, r2) = eval r in (VErr e, r2)
        | _ -> raise (Bad t)) in
      match t with
      | "add" | "addas" -> big2 (fun a b -> VBig (badd a b))
      | "sub" | "subas" -> big2 (fun a b -> VBig (bsub a b))
      | "mul" | "mulas" -> big2 (fun a b -> VBig (bmul a b))
      | "div" | "divas" -> big2 (fun a b -> VBig (bdiv a b))
      | "rem" | "remas" -> big2 (fun a b -> VBig (brem a b))
      | "gcd" -> big2 (fun a b -> match bgcd a b with Some g -> VBig g | None -> VErr "fuel")
      | "cmp" -> big2 (fun a b -> VCmp (Some (bcmp a b)))
      | "eq" -> big2 (fun a b -> VBool (beq a b))
      | "neg" -> big1 (fun a -> VBig (bneg a))
      | "minus" -> big1 (fun a -> VBig (bminus a))
      | "is_zero" -> big1 (fun a -> VBool (is_zero a))
      | "is_pos" -> big1 (fun a -> VBool a.bpos)
      | "to_int" -> big1 (fun a -> VU (to_int a))
      | "disp" -> big1 (fun a -> VStr (big_display a))
      | "new" -> (match eval rest with (VInt i, r) -> (VBig (bnew i), r) | _ -> raise (Bad t))
      | "tsb" -> (match eval rest with
                  | (VBig a, r) -> (match eval r with
                      | (VU b, r2) -> ((match to_string_base a b with TSOk s -> VStr s | TSBase -> VErr "base" | TSFuel -> VErr "fuel"), r2)
                      | _ -> raise (Bad t))
                  | _ -> raise (Bad t))
      | "fsb" -> (match eval rest with
                  | (VStr s, r) -> (match eval r with
                      | (VU b, r2) -> ((match from_string_base s b with FSOk a -> VBig a | FSBase -> VErr "base" | FSParse -> VErr "parse"), r2)
                      | _ -> raise (Bad t))
                  | _ -> raise (Bad t))
      | "N" -> big2 (fun a b -> VNum (from_big_num a b))
      | "nan" -> (VNum nan, rest)
      | "nnew" -> (match eval rest with
                   | (VInt i, r) -> (match eval r with (VInt j, r2) -> (VNum (nnew i j), r2) | _ -> raise (Bad t))
                   | _ -> raise (Bad t))
      | "fromnum" -> (match eval rest with (VInt i, r) -> (VNum (from_num i), r) | _ -> raise (Bad t))
      | "nadd" | "naddas" -> num2 (fun a b -> VNum (nadd a b))
      | "nmul" | "nmulas" -> num2 (fun a b -> VNum (nmul a b))
      | "nneg" -> num1 (fun a -> VNum (nneg a))
      | "nminus" -> num1 (fun a -> VNum (nminus a))
      | "nflip" -> num1 (fun a -> VNum (nflip a))
      | "floor" -> num1 (fun a -> VBig (floor a))
      | "nispos" -> num1 (fun a -> VBool (is_pos a))
      | "nisnan" -> num1 (fun a -> VBool (is_nan a))
      | "ncmp" -> num2 (fun a b -> VCmp (ncmp a b))
      | "neq" -> num2 (fun a b -> VBool (neq a b))
      | "ndisp" -> num1 (fun a -> VStr (num_display a))
      | "nfs" -> (match eval rest with
                  | (VStr s, r) -> ((match num_from_string s with Some x -> VNum x | None -> VErr "panic"), r)
                  | _ -> raise (Bad t))
      | _ -> raise (Bad ("unknown op " ^ t))
    end

let b01 b = if b then "1" else "0"
let render (v : value) : string =
  match v with
  | VBig a -> Printf.sprintf "B:%s:%s:%s" (utf8_of_cps (big_display a)) (b01 a.bpos) (b01 (is_zero a))
  | VNum a -> Printf.sprintf "N:%s:%s:%s" (utf8_of_cps (num_display a)) (b01 (is_pos a)) (b01 (is_nan a))
  | VBool b -> "b:" ^ b01 b
  | VCmp None -> "c:None" | VCmp (Some Lt) -> "c:Lt" | VCmp (Some Eq) -> "c:Eq" | VCmp (Some Gt) -> "c:Gt"
  | VStr s -> "s:" ^ utf8_of_cps s
  | VErr e -> "e:" ^ e
  | VInt _ -> "i:?"
  | VU u -> "u:" ^ ZZ.to_string (zz_of_n u)

let handle_num (toks : string list) : string =
  match eval toks with
  | (v, []) -> render v
  | (_, _) -> "bad:trailing"

(* ---- parser layer ---- *)
let dotted (l : n list) : string = String.concat "." (List.map (fun c -> ZZ.to_string (zz_of_n c)) l)
let render_ucode (u : ucode) : string =
  Printf.sprintf "%s,%s,%s,%s,%s,%s,%s,%s"
    (ZZ.to_string (zz_of_n u.ty)) (ZZ.to_string (zz_of_n u.hc)) (ZZ.to_string (zz_of_n u.dc))
    (ZZ.to_string (zz_of_n (fst u.loc))) (ZZ.to_string (zz_of_n (snd u.loc)))
    (dotted (area_debug u.ar)) (dotted (area_display u.ar)) (dotted u.raw)
let handle_parse (pre : bool) (toks : string list) : string =
  let text = match toks with [] -> [] | t :: _ -> cps_of_field t in
  let cmds = if pre then parse_pre_fix text else parse text in
  String.concat "|" (List.map render_ucode cmds)

let render_stripped (u : ucode) : string =
  Printf.sprintf "%s,%s,%s,%s"
    (ZZ.to_string (zz_of_n u.ty)) (ZZ.to_string (zz_of_n u.hc)) (ZZ.to_string (zz_of_n u.dc)) (dotted (area_debug u.ar))
let handle_parsespec (toks : string list) : string =
  let text = match toks with [] -> [] | t :: _ -> cps_of_field t in
  let t = decompose text in
  (if valid t && list_eq_dec N.eq_dec (flatten t) text then "" else "INVALID-DECOMPOSITION|")
  ^ String.concat "|" (List.map render_ucode (abstract t))
let handle_reparse (toks : string list) : string =
  let text = match toks with [] -> [] | t :: _ -> cps_of_field t in
  let cmds = parse text in
  let again = parse (List.concat (List.map (fun u -> u.raw) cmds)) in
  String.concat "|" (List.map render_stripped cmds) ^ "#" ^ String.concat "|" (List.map render_stripped again)

let () =
  try
    while true do
      let line = input_line stdin in
      let toks = List.filter (fun s -> s <> "") (String.split_on_char ' ' line) in
      let out =
        try
          match toks with
          | "num" :: rest -> handle_num rest
          | "parse" :: rest -> handle_parse false rest
          | "parsepre" :: rest -> handle_parse true rest
          | "parsespec" :: rest -> handle_parsespec rest
          | "reparse" :: rest -> handle_reparse rest
          | _ -> "bad:layer"
        with Bad m -> "bad:" ^ m | Stack_overflow -> "bad:stack" in
      print_string out; print_newline ()
    done
  with End_of_file -> ()
